#!/bin/bash
# tools/benignpar.sh <slot> <benign-id> [tier] [checks...]
# Counterpart of seedpar.sh for changes under which the properties still hold
# (/verif/benign/<id>/patch.diff): runs the checks (default: all 19) against a
# scratch worktree of /repo with the patch applied and a scratch copy of
# /verif under /tmp/seedpar/slot<slot>/, and reports every check that raises
# an alarm (VIOLATION line, or a non-zero exit) as a FALSE ALARM.
set -u
SLOT="$1"; ID="$2"; TIER="${3:-quick}"; shift 3 2>/dev/null || shift $#
V="$(cd "$(dirname "$0")/.." && pwd)"
S=/tmp/seedpar/slot$SLOT
D="$V/benign/$ID"
[ -f "$D/patch.diff" ] || { echo "benignpar: $D/patch.diff missing" >&2; exit 2; }
CHECKS="$*"
[ -n "$CHECKS" ] || CHECKS="C01 C02 C03 C04 C05 C06 C07 C08 C09 C10 C11 C12 C13 C14 C15 C16 C17 C18 C19"
mkdir -p "$S"
git -C /repo worktree remove --force "$S/repo" 2>/dev/null; rm -rf "$S/repo"; git -C /repo worktree prune
git -C /repo worktree add -q --detach "$S/repo" HEAD || exit 2
if ! git -C "$S/repo" apply "$D/patch.diff" 2>/dev/null && ! git -C "$S/repo" apply -3 "$D/patch.diff"; then echo "$ID: patch does not apply"; git -C /repo worktree remove --force "$S/repo"; exit 2; fi
rsync -a --delete --exclude target --exclude .git --exclude scratch --exclude replays --exclude seeded --exclude benign "$V/" "$S/verif/"
sed -i "s#path = \"/repo\"#path = \"$S/repo\"#" "$S/verif/harness/Cargo.toml" "$S/verif/harness-sched/Cargo.toml"
rm -rf "$S/verif/replays"; mkdir -p "$S/verif/scratch"
alarms=""; ran=""
for c in $CHECKS; do
  out="$(VH_REPO="$S/repo" "$S/verif/check" "$c" --tier "$TIER" 2>&1)"; rc=$?
  ran="$ran $c"
  if [ $rc -ne 0 ] || echo "$out" | grep -q "^VIOLATION"; then
    alarms="$alarms $c(rc=$rc)"
    echo "$out" | grep -E "^VIOLATION|^C[0-9]+ |machinery|panicked|error" | head -6 | cut -c1-400 | sed "s|^|    [$ID $c rc=$rc] |"
    # keep the first replay of each alarming check for triage
    r="$(echo "$out" | grep -m1 -o 'replay=[^ ]*' | cut -d= -f2)"
    [ -n "$r" ] && [ -f "$r" ] && { mkdir -p "$S/alarms"; cp "$r" "$S/alarms/$ID-$c.json"; }
  fi
done
git -C /repo worktree remove --force "$S/repo"
if [ -n "$alarms" ]; then echo "RESULT $ID: FALSE ALARM by$alarms (ran:$ran)"; else echo "RESULT $ID: QUIET (ran:$ran)"; fi
