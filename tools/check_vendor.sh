#!/bin/bash
# Fidelity of the vendored tantivy: it must differ from the registry copy of
# tantivy 0.19.2 exactly by vendor/tantivy-gates.patch (src/ only).
set -u
V="$(cd "$(dirname "$0")/.." && pwd)"
REG="$(ls -d ~/.cargo/registry/src/*/tantivy-0.19.2 2>/dev/null | head -1)"
if [ -z "$REG" ]; then echo "check_vendor: registry copy of tantivy 0.19.2 not found; skipped"; exit 0; fi
T="$(mktemp -d "$V/scratch/vendor.XXXXXX")"
(cd "$T" && cp -r "$REG/src" orig && cp -r "$V/vendor/tantivy-0.19.2/src" new && diff -ruN orig new | grep -v '^diff \|^--- \|^+++ ' > now.txt; grep -v '^diff \|^--- \|^+++ ' "$V/vendor/tantivy-gates.patch" > want.txt; cmp -s now.txt want.txt)
rc=$?
rm -rf "$T"
if [ $rc -ne 0 ]; then echo "check_vendor: vendored tantivy differs from registry + tantivy-gates.patch" >&2; exit 1; fi
echo "check_vendor: vendored tantivy = registry 0.19.2 + tantivy-gates.patch"
