#!/bin/bash
# tools/verify_seed.sh <PROP> <mN> [srcdir]
# Confirms a delivered seeded change in a scratch worktree (never in /repo):
#  (a) the unedited suite passes with the change, (b) the demonstration fails
#  with it, (c) the demonstration passes without it.  On success installs it
#  as /verif/seeded/<PROP>-<mN>/ {patch.diff, demo/, notes.md, meta.json}.
set -u
P="$1"; M="$2"; SRC="${3:-/tmp/wt/out/$P/$M}"
V="$(cd "$(dirname "$0")/.." && pwd)"
ID="$P-$M"
W=/tmp/vseed/$ID
export CARGO_NET_OFFLINE=true
git -C /repo worktree remove --force "$W" 2>/dev/null; rm -rf "$W"; git -C /repo worktree prune
git -C /repo worktree add -q --detach "$W" HEAD || exit 2
cd "$W" || exit 2
fin() { cd /; git -C /repo worktree remove --force "$W" 2>/dev/null; rm -rf "$W"; }
if ! git apply "$SRC/patch.diff" 2>/dev/null && ! git apply -3 "$SRC/patch.diff"; then echo "VERIFY $ID: patch does not apply"; fin; exit 1; fi
if git diff --name-only | grep -qv '^src/'; then echo "VERIFY $ID: note: patch touches files outside src/: $(git diff --name-only | grep -v '^src/' | tr '\n' ' ')"; fi
suite_out="$(cargo test --workspace --no-fail-fast --offline 2>&1)"; suite_rc=$?
suite_sum="$(echo "$suite_out" | grep '^test result' | awk '{p+=$4; f+=$6} END{print p" passed "f" failed"}')"
if [ $suite_rc -ne 0 ]; then echo "VERIFY $ID: REJECT suite fails with the change ($suite_sum)"; echo "$suite_out" | grep -E "FAILED|panicked|^error" | head; fin; exit 1; fi
tests=""
for f in "$SRC"/demo/*.rs; do [ -f "$f" ] || continue; cp "$f" tests/; tests="$tests --test $(basename "$f" .rs)"; done
if [ -z "$tests" ]; then echo "VERIFY $ID: no rust demo; manual verification needed"; fin; exit 3; fi
with_out="$(cargo test --offline $tests 2>&1)"; with_rc=$?
with_sum="$(echo "$with_out" | grep '^test result' | awk '{p+=$4; f+=$6} END{print p" passed "f" failed"}')"
git reset -q --hard HEAD || { echo "VERIFY $ID: cannot revert"; fin; exit 2; }
without_out="$(cargo test --offline $tests 2>&1)"; without_rc=$?
without_sum="$(echo "$without_out" | grep '^test result' | awk '{p+=$4; f+=$6} END{print p" passed "f" failed"}')"
fin
if [ $with_rc -eq 0 ]; then echo "VERIFY $ID: REJECT demo passes WITH the change ($with_sum)"; exit 1; fi
if echo "$with_out" | grep -qE "could not compile|^error\[E"; then echo "VERIFY $ID: REJECT demo does not build with the change"; echo "$with_out" | tail -5; exit 1; fi
if ! echo "$with_out" | grep -qE "test result: FAILED|FAIL|panicked|test failed"; then echo "VERIFY $ID: REJECT demo exits non-zero with the change but reports no failure"; echo "$with_out" | tail -5; exit 1; fi
if [ $without_rc -ne 0 ]; then echo "VERIFY $ID: REJECT demo fails WITHOUT the change ($without_sum)"; echo "$without_out" | grep -E "panicked|FAILED" | head -5; exit 1; fi
D="$V/seeded/$ID"; mkdir -p "$D/demo"
cp "$SRC/patch.diff" "$D/patch.diff"; cp "$SRC"/demo/* "$D/demo/"; cp "$SRC/notes.md" "$D/notes.md" 2>/dev/null
python3 - "$D" "$P" "$ID" "$suite_sum" "$with_sum" "$without_sum" <<'PY'
import json,sys,os
d,p,i,s,w,wo=sys.argv[1:]
meta_p=os.path.join(d,'meta.json')
meta=json.load(open(meta_p)) if os.path.exists(meta_p) else {}
meta.update({"id":i,"property":p,"origin":"independent sub-agent given only the property text and a scratch worktree",
 "confirmed":{"suite_with_change":s,"demo_with_change":w,"demo_without_change":wo,
  "how":"tools/verify_seed.sh: scratch worktree of /repo HEAD; git apply patch.diff; cargo test --workspace --no-fail-fast --offline; demo copied into tests/ and run with and without the patch"}})
meta.setdefault("needs","see notes.md")
meta.setdefault("checks",[p])
json.dump(meta,open(meta_p,'w'),indent=1)
PY
echo "VERIFY $ID: OK suite[$suite_sum] demo-with[$with_sum] demo-without[$without_sum]"
