#!/bin/bash
# Regenerates vendor/tantivy-gates.patch from the vendored sources (after an edit of the gates):
# the patch is, by definition, `diff -ruN <registry src> <vendored src>`; tools/check_vendor.sh
# (run by setup) verifies exactly that.
set -eu
V="$(cd "$(dirname "$0")/.." && pwd)"
REG="$(ls -d ~/.cargo/registry/src/*/tantivy-0.19.2 | head -1)"
T="$(mktemp -d "$V/scratch/vendor.XXXXXX")"
(cd "$T" && cp -r "$REG/src" orig && cp -r "$V/vendor/tantivy-0.19.2/src" new && (diff -ruN orig new > "$V/vendor/tantivy-gates.patch" || true))
rm -rf "$T"
"$V/tools/check_vendor.sh"
