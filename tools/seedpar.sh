#!/bin/bash
# tools/seedpar.sh <slot> <seeded-id> [tier] [checks...]
# Runs checks against a seeded change WITHOUT touching /repo or /verif's
# evidence: a scratch git worktree of /repo (patch applied) and a scratch copy
# of /verif (Cargo path dependencies rewritten to the worktree) under
# /tmp/seedpar/slot<slot>/.  Several slots can run in parallel.  The scratch
# copy keeps its cargo target directory between runs of the same slot.
# (The registered checks themselves always run from /verif against /repo.)
set -u
SLOT="$1"; ID="$2"; TIER="${3:-quick}"; shift 3 2>/dev/null || shift $#
V="$(cd "$(dirname "$0")/.." && pwd)"
S=/tmp/seedpar/slot$SLOT
D="$V/seeded/$ID"
[ -f "$D/patch.diff" ] || { echo "seedpar: $D/patch.diff missing" >&2; exit 2; }
CHECKS="$*"
[ -n "$CHECKS" ] || CHECKS="$(python3 -c "import json; m=json.load(open('$D/meta.json')); print(' '.join(m.get('checks') or [m['property']]))")"
mkdir -p "$S"
git -C /repo worktree remove --force "$S/repo" 2>/dev/null; rm -rf "$S/repo"; git -C /repo worktree prune
git -C /repo worktree add -q --detach "$S/repo" HEAD || exit 2
if ! git -C "$S/repo" apply "$D/patch.diff" 2>/dev/null && ! git -C "$S/repo" apply -3 "$D/patch.diff"; then echo "$ID: patch does not apply"; git -C /repo worktree remove --force "$S/repo"; exit 2; fi
rsync -a --delete --exclude target --exclude .git --exclude scratch --exclude replays --exclude seeded "$V/" "$S/verif/"
sed -i "s#path = \"/repo\"#path = \"$S/repo\"#" "$S/verif/harness/Cargo.toml" "$S/verif/harness-sched/Cargo.toml"
rm -rf "$S/verif/replays"; mkdir -p "$S/verif/scratch"
caught=""; ran=""; broken=""
for c in $CHECKS; do
  out="$(VH_REPO="$S/repo" "$S/verif/check" "$c" --tier "$TIER" 2>&1)"; rc=$?
  ran="$ran $c"
  if [ $rc -eq 1 ] && echo "$out" | grep -q "^VIOLATION property=$c"; then caught="$caught $c"; fi
  # a machinery exit is not a verdict: it never counts as catching the change
  if [ $rc -eq 2 ]; then broken="$broken $c"; fi
  echo "$out" | grep -E "^VIOLATION|why|^C[0-9]+ |machinery|panicked" | head -6 | cut -c1-400 | sed "s|^|    [$ID $c rc=$rc] |"
done
git -C /repo worktree remove --force "$S/repo"
[ -n "$broken" ] && broken=" MACHINERY-EXIT in$broken"
if [ -n "$caught" ]; then echo "RESULT $ID: CAUGHT by$caught$broken (ran:$ran)"; else echo "RESULT $ID: MISSED$broken (ran:$ran)"; fi
