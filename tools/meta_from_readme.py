#!/usr/bin/env python3
"""Fill round / what / needs / caught_by / history of seeded/<id>/meta.json from the
rows of seeded/README.md (the README is the hand-written record; meta.json mirrors it).
usage: meta_from_readme.py <id-substring> <round>      e.g.  -r7m 7"""
import json, os, re, sys
V = os.path.dirname(os.path.dirname(os.path.abspath(__file__)))
pat, rnd = sys.argv[1], int(sys.argv[2])
n = 0
for line in open(os.path.join(V, "seeded/README.md"), encoding="utf-8"):
    if not line.startswith("| C") or pat not in line.split("|")[1]:
        continue
    # split on unescaped pipes
    cells = [c.strip().replace("\\|", "|") for c in re.split(r"(?<!\\)\|", line.strip())[1:-1]]
    sid, prop, what, needs, caught, hist = cells[:6]
    p = os.path.join(V, "seeded", sid, "meta.json")
    if not os.path.exists(p):
        print("no meta.json for", sid); continue
    m = json.load(open(p))
    checks = re.findall(r"C\d\d", caught)
    m.update({"round": rnd, "what": what, "needs": needs, "caught_by": checks, "checks": checks, "tier": "quick", "history": hist})
    json.dump(m, open(p, "w"), indent=1, ensure_ascii=False)
    n += 1
print("updated", n)
