#!/usr/bin/env python3
"""Regenerates /verif/MANIFEST.json from the table below (kept in one place so
the manifest is always schema-valid)."""
import json, os, sys

V = os.path.dirname(os.path.dirname(os.path.abspath(__file__)))

# id -> (category, technique, level text, level note, design ref)
CHECKS = {
 "C01": ("exploration", "bounded-exhaustive enumeration of expression trees against a reference evaluator (small-scope model checking of a sequential evaluator)",
         "Every fully parenthesised expression tree up to 4 (thorough 5) leaves over a literal ladder and all five operators is evaluated by the real parser+evaluator and compared with an independent exact evaluator run on the generating tree; exhaustive within the stated bound.",
         "num::BigRational is exact; sizes between the ladder rungs behave like the rungs; layout/precedence are C06's subject.", "3 C01"),
}

NOT_APPLICABLE = {
}

ALL = ["C%02d" % i for i in range(1, 20)]

def main():
    checks = []
    for pid in ALL:
        if pid not in CHECKS:
            continue
        cat, tech, text, note, ref = CHECKS[pid]
        checks.append({
            "property_id": pid,
            "quick_cmd": f"./check {pid} --tier quick",
            "thorough_cmd": f"./check {pid} --tier thorough",
            "evidence_file": f"/verif/evidence/{pid}.json",
            "replay_cmd_template": f"./check {pid} --replay {{path}}",
            "engine": "vh",
            "level_claimed": {"category": cat, "text": text, "design_ref": "DESIGN.md §" + ref},
            "level_note": note,
            "technique": tech,
        })
    na = [{"property_id": p, "reason": NOT_APPLICABLE.get(p, "check not built yet in this round (planned, see DESIGN.md §3)")} for p in ALL if p not in CHECKS]
    m = {
        "version": 1,
        "setup_cmd": "cd /verif/harness && CARGO_NET_OFFLINE=true cargo build --offline --release && CARGO_NET_OFFLINE=true cargo build --offline --profile verif-debug",
        "hooks": {
            "guard": "anything_verif",
            "enable": "RUSTFLAGS=\"--cfg anything_verif\" via /verif/harness/.cargo/config.toml (harness builds only)",
            "baseline_off_cmd": "cd /repo && cargo test --workspace --no-fail-fast --offline",
            "source_commits": [],
            "add_only": True,
        },
        "engines": [
            {"name": "vh", "path": "/verif/harness", "serves_properties": [c["property_id"] for c in checks],
             "kind_free_text": "Rust harness linking /repo as a path dependency: sharded bounded-exhaustive explorers (input spaces, histories) against reference models, worker subprocesses with crash/hang attribution"},
        ],
        "checks": checks,
        "not_applicable": na,
        "notes": "Known findings and fixed defects: /verif/known_findings.txt. Design: /verif/DESIGN.md.",
    }
    with open(os.path.join(V, "MANIFEST.json"), "w") as f:
        json.dump(m, f, indent=1)
        f.write("\n")
    try:
        import jsonschema
        jsonschema.validate(m, json.load(open("/root/.vp/MANIFEST.schema.json")))
        print("MANIFEST.json valid,", len(checks), "checks")
    except ImportError:
        print("written (jsonschema not importable; run with python3-vt to validate)")

main()
