#!/usr/bin/env python3
"""Regenerates /verif/MANIFEST.json from the table below (kept in one place so
the manifest is always schema-valid)."""
import json, os, sys

V = os.path.dirname(os.path.dirname(os.path.abspath(__file__)))

# id -> (category, technique, level text, level note, design ref)
E1 = "bounded-exhaustive enumeration of a finite input space on the real code against a reference model (small-scope explicit enumeration, no sampling)"
CHECKS = {
 "C01": ("exploration", E1 + ": expression trees vs an exact reference evaluator",
         "Every fully parenthesised expression tree up to 4 (thorough 5) leaves over a literal ladder (integers, decimals, exponent forms, huge/tiny magnitudes and each percent literal next to its plain twin) and all five operators is evaluated by the real parser+evaluator and compared with an independent exact evaluator run on the generating tree; every operator sequence of length 1..4 (thorough 5) is also written without parentheses and compared with the tree the documented precedence table prescribes; integer exponents far beyond the trees' (to +-999) and integer exponents that are not written as integers (2.0, 20e-1, 200%); exhaustive within the stated bound.",
         "num::BigRational is exact; sizes between the ladder rungs behave like the rungs; blank layout is C06's subject.", "3 C01"),
 "C02": ("exploration", E1 + ": all ordered pairs of a unit-spelling set x {+,-,to} vs dimension vectors of an independent unit table",
         "Every ordered pair of ~450 (thorough ~1050) unit spellings (all units, prefixed, products/quotients, powered and prefixed-and-powered, spellings that cancel over the same or over different unit names, spellings that contribute/cancel/re-contribute a base) under + - and to, with non-zero and with zero-valued (written and computed) operands, spellings with one unit on both sides of the slash under different powers (m/m^2), computed operands (every a*b/c and a/b*c over ten quantities cast to, added to and subtracted from twelve targets, judged against the reference evaluation of the tree), three-operand chains over plain numbers, quantities in one unit and quantities in an incommensurable unit, a plain number cast twice, powers that differ by a multiple of 2^16 or 2^8, every ordered pair of 14 spellings in which one unit name cancels against itself (with and without written powers) under + - and to, plus plain-number adoption in both operand orders: Ok iff the independent table gives equal base dimensions, with exact SI value and the cast result expressed in the target unit.",
         "Independent unit table (tables.rs); syntactically cancelling spellings (m/m), computed dimensionless operands and prefixed words the tool rejects are not judged.", "3 C02"),
 "C03": ("exploration", E1 + ": commensurable unit pairs, prefixes, powers, composites vs SI scales, plus table-free conversion laws on the real code",
         "All ordered pairs per commensurability class x magnitudes, every prefix spelling, powers -3..3, every prefix symbol crossed with every power -3..3 (as source, as target and prefix-to-prefix; thorough: on every non-offset unit of the table, powers to +-5, 12 magnitudes per pair), 2-4 factor composites, composites naming the same units on both sides with differently distributed powers ratio units with a scale but no dimension (min/hr, ft/mi, l/m^3) and prefixed units that cancel half-way through an expression and return with their power (kN/kN^2, ms^-1*ms^2) against the table; round-trip, via-unit, unparenthesised cast chains and scaling laws evaluated on the real code only (no table).",
         "Independent unit table for the direct oracle; the laws need none. Words misread by the unit lexer are left to C05.", "3 C03"),
 "C04": ("exploration", E1 + ": products/quotients/powers of quantities vs SI value and dimension arithmetic",
         "All pairs of 55 quantity spellings (incl. one unit under several prefixes and powers, derived-per-base compounds) under * and / (either side parenthesised), all triples over a core (thorough: over the whole list, plus all quadruples in three groupings over a 10-quantity core), (q)^n for n=-3..3 (thorough -6..6) for every documented unit, one unit under two prefixes and two powers on either side of * and /, zero-valued quantities (written and computed) under ^n, * and /; SI value and base dimensions must equal the reference evaluation of the tree. A temperature on an offset scale (4 spellings x 3 readings) as a factor or divisor of 8 other quantities in both operand orders must be the product of the operands' SI values under the interval or the absolute reading of the degree.",
         "Independent unit table; display unit never compared; whether a degree inside a product is an interval or a refused use is left open (C09), only a value that is neither is reported.", "3 C04"),
 "C05": ("exploration", E1 + ": the whole unit vocabulary (names x prefixes, 2- and 3-name concatenations, unit expressions) vs independent segmentation",
         "Every name x every prefix spelling, every 2-name concatenation, short 3-name concatenations and all unit expressions of <=3 (4) items through both entry points; every acceptance of a word (by the query path, by str::parse::<Compound>) must mean one of its valid segmentations over the independent table (scale in the prefixes or in the number), bare documented names their own (standard) meaning; every documented unit under the powers 1,-1,2,-2,3 is converted to its dimensions spelled in base units (exact scale^p), which exercises the tool's own per-unit expansion; short histories in one thread over pairs of unit words that also read as one word without the blank (m s / ms, m in / min), both orders.",
         "Independent table; valid readings of an accepted word also admit the SI prefixes of 2022, English plurals of spelled-out names and twelve standard spellings the tool does not document (never used to generate cases); a result in a unit the table does not know is not judged; nine recorded findings (logos lexer drops characters; three test-pinned definitions) are listed in known_findings.txt.", "3 C05"),
 "C06": ("exploration", E1 + ": operator sequences x bracketings x blank layouts vs the documented precedence table",
         "All operator sequences up to length 5 over + - * / ^ with every bracketing (Catalan), minimal and full parentheses, redundant parentheses, function-argument position (incl. a call as the digits argument), `to` chains whose root cast must be expressed in the target unit, every sequence of up to 3 operators over operands that carry a unit (a number with its unit is one value), two or three unit words after a number in every blank layout, and blank layouts (all combinations of homogeneous gaps for <=2 operators, uniform + 1/2-slot deviations beyond, deviations including gaps that mix spaces and tabs, and - judged when the tool takes each of these characters, asked alone, for a blank - gaps with NBSP, EM SPACE and THIN SPACE alone and next to ASCII blanks) are evaluated and compared with the reference evaluation of the tree the documented grammar prescribes.",
         "Trees outside the statement's domain (non-integer or >1000 exponents) are counted, not judged; + - and `to` keep >=1 blank as the statement says.", "3 C06"),
 "C07": ("exploration", E1 + ": the literal grammar up to length 7 plus a size ladder vs an own decimal reader",
         "Every literal of the grammar up to length 7 over a reduced digit alphabet ({0,1,9}; thorough {0,1,5,9}), all ten digits to length 4 (thorough 5), plus 20..300-digit ladder literals, read by both the library parser and the query path and compared with an independent reader; histories in one thread of a string the grammar rejects half-way followed by a literal (17 x 7, through str::parse, two queries, two groups of one query).",
         "Exponent magnitudes > 999 are not judged (exact values with thousands of digits; C11 bounds exponents to 3 digits).", "3 C07"),
 "C08": ("exploration", E1 + ": value grid x every display spec, printed text re-read and judged",
         "Every value of a rational grid (small p/q, p/q*10^k for k in -40..40, neighbours of powers of ten, numerators and denominators at the machine-word edges 2^k-1, 2^k, 2^k+1 for k=8..128, a tenth of each, 10^18..10^20) under every limit x exponent_limit spec (quick 56, thorough 314: budgets to 20 crossed with exponent limits, and fourteen budgets from 40 to 257), mark on and off; the printed text is re-read by an own reader and must be the truncation toward zero with mark iff something non-zero was cut.",
         "Magnitudes between grid points behave like the points.", "3 C08"),
 "C10": ("exploration", E1 + ": rational grid x {floor,ceil,round,round(x,n)} vs integer-arithmetic definitions, in release and debug-assertion builds",
         "Every p/q of a grid (|p| <= 40, q <= 8; thorough |p| <= 400, q <= 40; negatives, integers, halves, boundary +-10^-k for k<=7, and integer/half +-10^-k for k in 8..25 at magnitudes 0..2^64) through floor/ceil/round/round(x,n), n=-6..6, two-step histories round(x,n1) then round(y,n2) on one thread for every ordered pair of 20 digit counts up to +-39, values of 40..900 digits rounded just below, at and above their own magnitude, units carried, nested calls (a call as value or as digits argument), wrong arities incl. nested ones; compared with exact integer definitions; both build profiles so debug-only assertions count.",
         "Non-integer digits arguments are not judged.", "3 C10"),
 "C09": ("exploration", E1 + ": magnitudes x scale pairs x chains x non-alone positions vs the affine formulas",
         "12 magnitudes x 36 scale-spelling pairs (thorough: also every multiple of 1/8 from -500 to 1000 x the nine scale pairs), all chains up to length 4 (thorough 5), every ordered pair of 21 prefixed scale words (m k n G milli kilo on K, degC, degF) x 5 magnitudes and chains through a prefixed scale, and several casts in one query, sums and differences of two temperatures over all 36 spelling pairs, each also converted afterwards to every scale (with and without parentheses), and every placement of a scale that is not alone with power one (powers, products, quotients) - the latter must be refused or treated as an interval, also when the other unit of the compound is converted by the same cast (6 unit pairs x 3 shapes x scale pairs x 2 values).",
         "The affine formulas are written out in the harness.", "3 C09"),
 "C11": ("exploration", E1 + ": token soups, unicode strings and 1/2-edit neighbourhoods of seeds; no panic/abort/hang, located errors; both build profiles and the real binary on a stride",
         "All token sequences <=3 (4) over 46 tokens (incl. values that are zero only after a unit conversion) x joiner patterns, all unicode strings <=4 (5) over 30 code points, every 1-edit (thorough 2-edit) of 66 seeds, a repetition/nesting ladder (k up to 257) over 1..2 structural tokens, a two-byte character across 14 byte boundaries from 16 to 8192 in fact phrases and unit words, every function over 22 argument magnitudes on both sides of the range of a machine float, nested powers of a quantity of value one over seven two-digit exponents to depth 5 (6) so that the unit's power runs through every digit count of the machine word and past it, 14 single-error queries under leading/trailing blanks through the real binary (what it underlines must be the text the library's range selects), in release and debug-assertion builds; each result must display or be an error with an in-bounds char-boundary range that the diagnostic renderer accepts; worker processes attribute aborts and hangs to the input.",
         "Inputs outside the statement's numeric bounds (>3-digit exponents, >2-digit powers) or with possibly astronomically large values are counted and skipped.", "3 C11"),
 "C12": ("exploration", E1 + ": all strings up to length 5 (thorough 6) over a 40-symbol alphabet through lexer and parser",
         "105 M (thorough 4.2 G) strings, every sequence of up to 6 whole tokens over a 12-token alphabet (3 M), every string up to length 3 parsed right after a unit string with trailing content went through str::parse::<Compound> on the same thread, and every sequence of 1..3 tokens repeated k times / nested k deep in ten wrappers for k up to 257: tokens non-empty, on char boundaries, tile the input; the tree's token leaves equal the token stream.",
         "Long inputs are periodic ones only (repetition/nesting ladder); otherwise via C11.", "3 C12"),
 "C13": ("exploration", E1 + ": field-law instances over literal quantities and every shipped fact, both sides evaluated by the real code",
         "Commutativity over pairs of ~140 literal quantities (incl. prefixed bases, one unit under several prefixes and powers, derived-per-base compounds) and ~770 facts (all multi-word phrases plus every typeable single-word fact that is not a unit word), a-a, a/a for all, associativity and distributivity over a core of triples, commutativity of products with a temperature on an offset scale (5 readings x 24 quantities and each other); both sides compared in SI normal form within one Db instance.",
         "Independent unit table for the SI normal form; plain-number adoption and zero divisors are outside the laws' preconditions.", "3 C13"),
 "C14": ("model_checking", "stateless depth-first schedule exploration of the real index build under a controlled scheduler at tantivy's layout-determining seams (vendored tantivy with gates), plus session histories mem / disk-first / disk-reopen / disk-rebuild",
         "Every assignment of documents to indexing workers (symmetry-reduced), every order of equally sized segments, merge timing and merge input order is enumerated on the real Db::in_memory()/Db::open() over reduced data sets of shipped constants that tie for the ambiguous probes; every session history of up to 2 (thorough 4) sessions over {in-memory build, on-disk session, on-disk session over other data} is explored the same way (a disk session after another is a reopen or a rebuild); every session of every execution must answer the probe set like the reference execution (and own-word probes must find their constant); on-disk layouts are read back from the real index; the full shipped data runs under corner schedules, each followed by every single deviation at every tie-order and merge-timing point (so a build that leaves several equal-sized segments is explored in every segment order). Probes: every constant's full word set, every distinct single word of the data set, word prefixes of length 1..3 and ordered pairs of word initials; every probe is asked twice per session (one database answering differently is a violation in itself); an answer is the values, the words and description of each described constant and what its source resolves to in that session.",
         "Layout depends on scheduling only through the four gated seams (argued in DESIGN 2.6, cross-checked by reading real on-disk layouts back); nondeterminism that does not pass through those seams is not enumerated, only observed through the run's independent builds and double-asked probes; vendored tantivy = registry 0.19.2 + vendor/tantivy-gates.patch (checked in setup); hook H1 (asset directory seam) supplies the reduced data sets.", "3 C14"),
 "C15": ("fault_enumeration", "exhaustive crash-point (and torn-write) enumeration of the real start-up under an LD_PRELOAD fault injector, crossed with prior directory states and followed by crash-free starts",
         "The real Db::open() is killed before every one of its file-system mutations (every point; thorough also torn writes and two-crash histories: every pair of crash points from the absent prior) from each prior directory state; after each crash: meta.json current => index complete (checked with tantivy independently), and two crash-free starts must answer the probe set exactly like a fresh in-memory database. Every listed prior state (absent, other major version, next patch version / build suffix over an index with other content, an index in another build's layout under seven near-current version strings, other data, missing/truncated/garbage (text and non-UTF-8) metadata incl. every proper prefix, 18 well-formed JSON documents of the wrong shape, missing index directory) is also started crash-free.",
         "Process-crash model (no power-loss reordering); tantivy's raw-syscall renames are bracketed by interposed calls; the crashed directory is the replay artefact.", "3 C15"),
 "C16": ("exploration", E1 + ": every shipped constant x every permutation of its words",
         "All 878 constants decoded independently; every typeable permutation of their words is looked up with descriptions on; the returned constant must carry the words, its value, unit and source id must equal those stored in the data file (read without the subject's types), and the source must resolve to the record stored under that id.",
         "One in-memory Db per worker; the returned constant is identified among the stored ones by its set of words and its description.", "3 C16"),
 "C17": ("exploration", E1 + ": all derived units x powers x prefixes, compounds, rational grid, every shipped constant through encode/decode",
         "CBOR (and JSON for rationals) round trips over a rational grid (thorough 2000/200), unit triples over a 10- (thorough 40-) unit core, incl. machine-word boundaries 2^k-1, 2^k, 2^k+1 (k=7..128) as numerator and denominator and compounds as the parser builds them from every prefix spelling x 16 unit words x 5 shapes; long decimals (10^k, 10^k+-1, 2^k, 3^k, k! at 14 lengths from 8 to 200 digits over 9 denominators, both signs); every shipped constant decoded directly and through the tool's own loader (looked up by its own words: stored value, unit, description, source); the encodings the previous builds wrote for the 8 base units (hand-written CBOR, alone and in compounds with 3 power/prefix pairs) decode to the unit; ids pairwise distinct and equal to the documented ids pinned in the harness; decoded units are the same statics.",
         "serde_cbor/serde_json are faithful carriers.", "3 C17"),
 "C19": ("exploration", E1 + ": query family x {default,--exact} through the real binary vs text rebuilt from library results",
         "Value shapes x unit shapes x error/multi-result/fact compositions, every documented unit alone / squared / as denominator / in products and quotients / prefixed, exponents of every length from 2 to 10 digits, failed function calls nested 1..200 deep and repeated 2..130 times in front of results that call functions, negative tiny/huge values, every ordered pair and triple (thorough: quadruple) of eight result kinds (two of them failed lookups) in one query - the sequence of result kinds must be that of the groups asked one by one, so results missing after an error are seen -, thorough also every ordered pair of 62 quantities as a product and a quotient, every documented unit under every prefix symbol and every shipped fact by its own words, both modes, run through the `any` binary built from /repo and compared line by line with the stated printing rule applied to the library's results; every printed unit is additionally re-read with the harness's own vocabulary table and must denote the computed unit (SI scale and dimensions), with a blank when it has a numerator part and none in front of a leading slash, no plural form when the value is one and none after the slash; in decimal mode the printed number is re-read and judged against the value with C08's oracle.",
         "Decimal rendering is taken from the library (C08 judges it); no exit code and no diagnostic header format is required (a diagnostic is a margin line carrying the library's message, on stdout in order or on stderr); two display-only names (`fl oz`, `g` for gforce) are aliased in the re-reader.", "3 C19"),
 "C18": ("model_checking", "explicit-state search over operation histories executed on the real Db (state = history, canonicalised by probe-set answers) plus exhaustive expression enumeration",
         "All histories of length <=3 (4) over 22 operations (11 queries incl. two phrases the search backend itself rejects, a word shared by several constants, a full word set containing it, and a three-result query failing in the middle; describe on/off) on one shared Db: every step must answer as on a fresh Db and leave the probe-set answers unchanged; all histories <=3 over 20 lookup-free unit/number/function queries against hand-written exact expectations; histories over up to 16 nearly colliding full word sets against the independently decoded constants; 440 multi-result queries (incl. casts) whose computed results must all be described whatever fails around them; every distinct single word of the data set (described constant = value returned); the real binary with/without --describe over 8 phrases (sourced and sourceless constants): every ordered pair and triple of results and every product must print each phrase's own single-phrase description lines in order; all expressions with <=3 operands over literals and fact phrases with describe on/off, where the description order must agree with the evaluation order of every pair of operands as observed directly (both made to fail: whose error is reported).",
         "The model is the implementation itself (no abstraction): every explored trace is an implementation trace.", "3 C18"),
}

NOT_APPLICABLE = {
}

ALL = ["C%02d" % i for i in range(1, 20)]

def main():
    checks = []
    for pid in ALL:
        if pid not in CHECKS:
            continue
        cat, tech, text, note, ref = CHECKS[pid]
        checks.append({
            "property_id": pid,
            "quick_cmd": f"./check {pid} --tier quick",
            "thorough_cmd": f"./check {pid} --tier thorough",
            "evidence_file": f"/verif/evidence/{pid}.json",
            "replay_cmd_template": f"./check {pid} --replay {{path}}",
            "engine": "vs" if pid == "C14" else "vh",
            "level_claimed": {"category": cat, "text": text, "design_ref": "DESIGN.md §" + ref},
            "level_note": note,
            "technique": tech,
        })
    na = [{"property_id": p, "reason": NOT_APPLICABLE.get(p, "check not built yet in this round (planned, see DESIGN.md §3)")} for p in ALL if p not in CHECKS]
    m = {
        "version": 1,
        "setup_cmd": "mkdir -p /verif/scratch && /verif/tools/check_vendor.sh && gcc -O1 -fPIC -shared -o /verif/shim/crash.so /verif/shim/crash.c -ldl && cd /verif/harness && CARGO_NET_OFFLINE=true cargo build --offline --release && CARGO_NET_OFFLINE=true cargo build --offline --profile verif-debug && cd /verif/harness-sched && CARGO_NET_OFFLINE=true cargo build --offline --release && cd /repo && CARGO_NET_OFFLINE=true cargo build --offline --release --bin any --target-dir /verif/harness/target/any",
        "hooks": {
            "guard": "anything_verif",
            "enable": "RUSTFLAGS=\"--cfg anything_verif\" via /verif/harness/.cargo/config.toml (harness builds only)",
            "baseline_off_cmd": "cd /repo && cargo test --workspace --no-fail-fast --offline",
            "source_commits": ["f37cae5"],
            "add_only": True,
        },
        "engines": [
            {"name": "vs", "path": "/verif/harness-sched", "serves_properties": ["C14"],
             "kind_free_text": "stateless DFS schedule explorer: worker-process pool running the real index build against /verif/vendor/tantivy-0.19.2 (registry crate + gate patch) under a process-global controller"},
            {"name": "vh", "path": "/verif/harness", "serves_properties": [c["property_id"] for c in checks],
             "kind_free_text": "Rust harness linking /repo as a path dependency: sharded bounded-exhaustive explorers (input spaces, histories) against reference models, worker subprocesses with crash/hang attribution"},
        ],
        "checks": checks,
        "not_applicable": na,
        "notes": "Known findings and fixed defects: /verif/known_findings.txt. Design: /verif/DESIGN.md.",
    }
    with open(os.path.join(V, "MANIFEST.json"), "w") as f:
        json.dump(m, f, indent=1)
        f.write("\n")
    try:
        import jsonschema
        jsonschema.validate(m, json.load(open("/root/.vp/MANIFEST.schema.json")))
        print("MANIFEST.json valid,", len(checks), "checks")
    except ImportError:
        print("written (jsonschema not importable; run with python3-vt to validate)")

main()
