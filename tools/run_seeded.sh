#!/bin/bash
# tools/run_seeded.sh <seeded-id>|all [quick|thorough]
# Applies a seeded property-breaking change to /repo, runs the checks named in
# its meta.json (default: the check of its property), restores /repo, and
# reports which checks caught it. /repo must be clean.
set -u
V="$(cd "$(dirname "$0")/.." && pwd)"
TIER="${2:-quick}"
if [ -n "$(git -C /repo status --porcelain)" ]; then echo "run_seeded: /repo is not clean" >&2; exit 2; fi
run_one() {
  local d="$V/seeded/$1"
  [ -f "$d/patch.diff" ] || { echo "run_seeded: $d/patch.diff missing" >&2; return 2; }
  local checks; checks="$(python3 -c "import json,sys; m=json.load(open('$d/meta.json')); print(' '.join(m.get('checks') or [m['property']]))")"
  if ! git -C /repo apply "$d/patch.diff" 2>/dev/null && ! git -C /repo apply -3 "$d/patch.diff"; then echo "$1: patch does not apply" ; git -C /repo reset -q; git -C /repo checkout -- .; return 2; fi
  git -C /repo reset -q   # a 3-way apply stages the change; keep the index at HEAD so that checkout restores
  local caught=""
  for c in $checks; do
    out="$("$V/check" "$c" --tier "$TIER" 2>&1)"; rc=$?
    if [ $rc -eq 1 ] && echo "$out" | grep -q "^VIOLATION property=$c"; then caught="$caught $c"; fi
    if [ $rc -eq 2 ]; then echo "    [$c] machinery exit (2): not a verdict, does not count as catching the change"; fi
    echo "$out" | grep -E "^VIOLATION|why|^C[0-9]+ " | head -4 | cut -c1-300 | sed "s/^/    [$c] /"
  done
  git -C /repo checkout -- .
  git -C /repo clean -fdq -- src tests 2>/dev/null
  if [ -n "$caught" ]; then echo "$1: CAUGHT by$caught"; else echo "$1: MISSED (ran: $checks)"; fi
}
if [ "${1:-}" = all ]; then
  for d in "$V"/seeded/*/; do run_one "$(basename "$d")"; done
else
  run_one "$1"
fi
