// LD_PRELOAD crash-point shim for C15.
//
// Counts every libc-level mutation of the file system under $CRASH_DIR
// (creating/truncating opens, write, pwrite, writev, ftruncate, fsync,
// fdatasync, mkdir, unlink, rmdir, rename) and SIGKILLs the process *before*
// mutation number $CRASH_AT (1-based). For a write it can instead perform a
// torn write first: CRASH_TORN=1 writes the first half, CRASH_TORN=2 all but
// the last byte, then dies. With CRASH_AT=0 nothing is killed and every
// mutation is appended to $CRASH_LOG as "<n> <op> <detail>".
#define _GNU_SOURCE
#include <dlfcn.h>
#include <errno.h>
#include <fcntl.h>
#include <signal.h>
#include <stdarg.h>
#include <stdatomic.h>
#include <stdio.h>
#include <stdlib.h>
#include <string.h>
#include <sys/stat.h>
#include <sys/types.h>
#include <sys/uio.h>
#include <unistd.h>

static const char *g_dir;
static size_t g_dirlen;
static long g_at;
static int g_torn;
static int g_logfd = -1;
static atomic_long g_count;
static unsigned char g_fds[65536];
static int g_init;

static void init(void) {
  if (g_init) return;
  g_init = 1;
  g_dir = getenv("CRASH_DIR");
  g_dirlen = g_dir ? strlen(g_dir) : 0;
  const char *a = getenv("CRASH_AT");
  g_at = a ? atol(a) : 0;
  const char *t = getenv("CRASH_TORN");
  g_torn = t ? atoi(t) : 0;
  const char *l = getenv("CRASH_LOG");
  if (l && *l) {
    int (*real_open)(const char *, int, ...) = dlsym(RTLD_NEXT, "open");
    g_logfd = real_open(l, O_WRONLY | O_CREAT | O_APPEND | O_CLOEXEC, 0644);
  }
}

static int under(const char *path) {
  init();
  return g_dir && path && strncmp(path, g_dir, g_dirlen) == 0;
}

static void logline(long n, const char *op, const char *detail, long len) {
  if (g_logfd < 0) return;
  char buf[1024];
  int k = snprintf(buf, sizeof buf, "%ld %s %s %ld\n", n, op, detail ? detail : "", len);
  ssize_t (*real_write)(int, const void *, size_t) = dlsym(RTLD_NEXT, "write");
  if (k > 0) real_write(g_logfd, buf, (size_t)k);
}

static void die(void) {
  kill(getpid(), SIGKILL);
  for (;;) pause();
}

// returns 1 if this mutation is the crash point
static int mutation(const char *op, const char *detail, long len) {
  init();
  long n = atomic_fetch_add(&g_count, 1) + 1;
  logline(n, op, detail, len);
  return g_at > 0 && n == g_at;
}

static const char *fdname(int fd, char *buf, size_t n) {
  char p[64];
  snprintf(p, sizeof p, "/proc/self/fd/%d", fd);
  ssize_t k = readlink(p, buf, n - 1);
  if (k < 0) k = 0;
  buf[k] = 0;
  return buf;
}

static int tracked(int fd) { return fd >= 0 && fd < (int)sizeof g_fds && g_fds[fd]; }

static int do_open(const char *name, int (*real)(const char *, int, ...), const char *path, int flags, mode_t mode) {
  int mut = under(path) && (flags & (O_CREAT | O_TRUNC));
  if (mut) {
    // only a mutation if it creates or truncates something
    struct stat st;
    int exists = stat(path, &st) == 0;
    if ((!exists && (flags & O_CREAT)) || (exists && (flags & O_TRUNC) && st.st_size > 0)) {
      if (mutation(name, path, 0)) die();
    }
  }
  int fd = real(path, flags, mode);
  if (fd >= 0 && fd < (int)sizeof g_fds) g_fds[fd] = under(path) ? 1 : 0;
  return fd;
}

int open(const char *path, int flags, ...) {
  mode_t mode = 0;
  if (flags & (O_CREAT | O_TMPFILE)) { va_list ap; va_start(ap, flags); mode = va_arg(ap, mode_t); va_end(ap); }
  return do_open("open", dlsym(RTLD_NEXT, "open"), path, flags, mode);
}
int open64(const char *path, int flags, ...) {
  mode_t mode = 0;
  if (flags & (O_CREAT | O_TMPFILE)) { va_list ap; va_start(ap, flags); mode = va_arg(ap, mode_t); va_end(ap); }
  return do_open("open64", dlsym(RTLD_NEXT, "open64"), path, flags, mode);
}
static int do_openat(const char *name, int (*real)(int, const char *, int, ...), int dirfd, const char *path, int flags, mode_t mode) {
  char full[4096];
  const char *p = path;
  if (path && path[0] != '/' && dirfd != AT_FDCWD) {
    char d[2048];
    snprintf(full, sizeof full, "%s/%s", fdname(dirfd, d, sizeof d), path);
    p = full;
  }
  int mut = under(p) && (flags & (O_CREAT | O_TRUNC));
  if (mut) {
    struct stat st;
    int exists = stat(p, &st) == 0;
    if ((!exists && (flags & O_CREAT)) || (exists && (flags & O_TRUNC) && st.st_size > 0)) {
      if (mutation(name, p, 0)) die();
    }
  }
  int fd = real(dirfd, path, flags, mode);
  if (fd >= 0 && fd < (int)sizeof g_fds) g_fds[fd] = under(p) ? 1 : 0;
  return fd;
}
int openat(int dirfd, const char *path, int flags, ...) {
  mode_t mode = 0;
  if (flags & (O_CREAT | O_TMPFILE)) { va_list ap; va_start(ap, flags); mode = va_arg(ap, mode_t); va_end(ap); }
  return do_openat("openat", dlsym(RTLD_NEXT, "openat"), dirfd, path, flags, mode);
}
int openat64(int dirfd, const char *path, int flags, ...) {
  mode_t mode = 0;
  if (flags & (O_CREAT | O_TMPFILE)) { va_list ap; va_start(ap, flags); mode = va_arg(ap, mode_t); va_end(ap); }
  return do_openat("openat64", dlsym(RTLD_NEXT, "openat64"), dirfd, path, flags, mode);
}
int creat(const char *path, mode_t mode) { return open(path, O_CREAT | O_WRONLY | O_TRUNC, mode); }

int close(int fd) {
  int (*real)(int) = dlsym(RTLD_NEXT, "close");
  if (fd >= 0 && fd < (int)sizeof g_fds) g_fds[fd] = 0;
  return real(fd);
}

static ssize_t torn(int fd, const void *buf, size_t len, off_t off, int positioned) {
  // perform the torn prefix, then die
  size_t k = g_torn == 1 ? len / 2 : (g_torn == 2 && len > 0 ? len - 1 : 0);
  if (k > 0) {
    if (positioned) {
      ssize_t (*rp)(int, const void *, size_t, off_t) = dlsym(RTLD_NEXT, "pwrite");
      rp(fd, buf, k, off);
    } else {
      ssize_t (*rw)(int, const void *, size_t) = dlsym(RTLD_NEXT, "write");
      rw(fd, buf, k);
    }
  }
  die();
  return -1;
}

ssize_t write(int fd, const void *buf, size_t len) {
  ssize_t (*real)(int, const void *, size_t) = dlsym(RTLD_NEXT, "write");
  if (tracked(fd)) {
    char n[1024];
    if (mutation("write", fdname(fd, n, sizeof n), (long)len)) return torn(fd, buf, len, 0, 0);
  }
  return real(fd, buf, len);
}
ssize_t pwrite(int fd, const void *buf, size_t len, off_t off) {
  ssize_t (*real)(int, const void *, size_t, off_t) = dlsym(RTLD_NEXT, "pwrite");
  if (tracked(fd)) {
    char n[1024];
    if (mutation("pwrite", fdname(fd, n, sizeof n), (long)len)) return torn(fd, buf, len, off, 1);
  }
  return real(fd, buf, len, off);
}
ssize_t pwrite64(int fd, const void *buf, size_t len, off_t off) {
  ssize_t (*real)(int, const void *, size_t, off_t) = dlsym(RTLD_NEXT, "pwrite64");
  if (tracked(fd)) {
    char n[1024];
    if (mutation("pwrite64", fdname(fd, n, sizeof n), (long)len)) return torn(fd, buf, len, off, 1);
  }
  return real(fd, buf, len, off);
}
ssize_t writev(int fd, const struct iovec *iov, int cnt) {
  ssize_t (*real)(int, const struct iovec *, int) = dlsym(RTLD_NEXT, "writev");
  if (tracked(fd)) {
    char n[1024];
    long total = 0;
    for (int i = 0; i < cnt; i++) total += (long)iov[i].iov_len;
    if (mutation("writev", fdname(fd, n, sizeof n), total)) {
      if (g_torn && cnt > 0) return torn(fd, iov[0].iov_base, iov[0].iov_len, 0, 0);
      die();
    }
  }
  return real(fd, iov, cnt);
}
int ftruncate(int fd, off_t len) {
  int (*real)(int, off_t) = dlsym(RTLD_NEXT, "ftruncate");
  if (tracked(fd)) { char n[1024]; if (mutation("ftruncate", fdname(fd, n, sizeof n), (long)len)) die(); }
  return real(fd, len);
}
int ftruncate64(int fd, off_t len) {
  int (*real)(int, off_t) = dlsym(RTLD_NEXT, "ftruncate64");
  if (tracked(fd)) { char n[1024]; if (mutation("ftruncate64", fdname(fd, n, sizeof n), (long)len)) die(); }
  return real(fd, len);
}
int fsync(int fd) {
  int (*real)(int) = dlsym(RTLD_NEXT, "fsync");
  if (tracked(fd)) { char n[1024]; if (mutation("fsync", fdname(fd, n, sizeof n), 0)) die(); }
  return real(fd);
}
int fdatasync(int fd) {
  int (*real)(int) = dlsym(RTLD_NEXT, "fdatasync");
  if (tracked(fd)) { char n[1024]; if (mutation("fdatasync", fdname(fd, n, sizeof n), 0)) die(); }
  return real(fd);
}
int mkdir(const char *path, mode_t mode) {
  int (*real)(const char *, mode_t) = dlsym(RTLD_NEXT, "mkdir");
  if (under(path)) { struct stat st; if (stat(path, &st) != 0 && mutation("mkdir", path, 0)) die(); }
  return real(path, mode);
}
int mkdirat(int dirfd, const char *path, mode_t mode) {
  int (*real)(int, const char *, mode_t) = dlsym(RTLD_NEXT, "mkdirat");
  if (under(path)) { struct stat st; if (stat(path, &st) != 0 && mutation("mkdirat", path, 0)) die(); }
  return real(dirfd, path, mode);
}
int unlink(const char *path) {
  int (*real)(const char *) = dlsym(RTLD_NEXT, "unlink");
  if (under(path) && mutation("unlink", path, 0)) die();
  return real(path);
}
int unlinkat(int dirfd, const char *path, int flags) {
  int (*real)(int, const char *, int) = dlsym(RTLD_NEXT, "unlinkat");
  char full[4096];
  const char *p = path;
  if (path && path[0] != '/' && dirfd != AT_FDCWD) { char d[2048]; snprintf(full, sizeof full, "%s/%s", fdname(dirfd, d, sizeof d), path); p = full; }
  if (under(p) && mutation("unlinkat", p, 0)) die();
  return real(dirfd, path, flags);
}
int rmdir(const char *path) {
  int (*real)(const char *) = dlsym(RTLD_NEXT, "rmdir");
  if (under(path) && mutation("rmdir", path, 0)) die();
  return real(path);
}
int rename(const char *a, const char *b) {
  int (*real)(const char *, const char *) = dlsym(RTLD_NEXT, "rename");
  if ((under(a) || under(b)) && mutation("rename", b, 0)) die();
  return real(a, b);
}
int renameat(int ad, const char *a, int bd, const char *b) {
  int (*real)(int, const char *, int, const char *) = dlsym(RTLD_NEXT, "renameat");
  if ((under(a) || under(b)) && mutation("renameat", b, 0)) die();
  return real(ad, a, bd, b);
}
int renameat2(int ad, const char *a, int bd, const char *b, unsigned int f) {
  int (*real)(int, const char *, int, const char *, unsigned int) = dlsym(RTLD_NEXT, "renameat2");
  if ((under(a) || under(b)) && mutation("renameat2", b, 0)) die();
  return real(ad, a, bd, b, f);
}
