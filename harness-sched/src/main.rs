//! C14 — schedule exploration of the index build at tantivy's seams.
//!
//! Stateless DFS over the choice points G1 (which worker receives document
//! k), G2 (order of equally sized segments), G3 (merge timing), G4 (merge
//! input order) of the real `Db::in_memory()` / `Db::open()` code, running on
//! a vendored tantivy whose gates consult the controller below.

use std::collections::{BTreeMap, HashSet};
use std::io::{Read, Write};
use std::path::{Path, PathBuf};
use std::sync::{Arc, Mutex};
use std::time::Instant;

use serde_cbor::Value;
use tantivy::verif_gate::{self, Controller, MergeTiming};

// ---------------------------------------------------------------------------
// controller

#[derive(Clone, Debug, serde::Serialize, serde::Deserialize)]
struct Point {
    kind: String,
    options: usize,
    chosen: usize,
}

#[derive(Default)]
struct CtlState {
    prefix: Vec<usize>,
    points: Vec<Point>,
    diverged: Option<String>,
    workers: usize,
    used: Vec<usize>,
    /// belief: documents per worker slot (document sequence numbers)
    docs: BTreeMap<usize, Vec<u64>>,
    /// per writer generation log of what happened (for the layout belief)
    events: Vec<String>,
    /// policy instead of DFS choice for G1 (full-data corner schedules)
    policy: Option<Policy>,
    total_docs_hint: u64,
    switches: usize,
    last_worker: Option<usize>,
}

#[derive(Clone, Copy, Debug, PartialEq)]
enum Policy {
    AllToOne,
    RoundRobin,
    ReverseRoundRobin,
    TwoHalves,
    FirstAlone,
    LastAlone,
}

struct Ctl {
    st: Mutex<CtlState>,
}

impl Ctl {
    fn new(prefix: Vec<usize>, policy: Option<Policy>, total: u64) -> Arc<Ctl> {
        Arc::new(Ctl { st: Mutex::new(CtlState { prefix, policy, total_docs_hint: total, ..Default::default() }) })
    }
    fn choose(st: &mut CtlState, kind: &str, options: usize) -> usize {
        assert!(options >= 1);
        let i = st.points.len();
        let chosen = if i < st.prefix.len() {
            let c = st.prefix[i];
            if c >= options {
                st.diverged = Some(format!("choice point #{i} ({kind}) has {options} options, replayed choice is {c}"));
                0
            } else {
                c
            }
        } else {
            0
        };
        st.points.push(Point { kind: kind.to_string(), options, chosen });
        chosen
    }
}

/// permutation of 0..n chosen through a Lehmer code of choice points; for
/// n > 6 only identity, reverse and rotations (stated cap)
fn choose_perm(st: &mut CtlState, kind: &str, n: usize) -> Vec<usize> {
    if n <= 1 {
        return (0..n).collect();
    }
    if n > 6 {
        let c = Ctl::choose(st, &format!("{kind}:capped{n}"), n + 1);
        let mut v: Vec<usize> = (0..n).collect();
        if c == n {
            v.reverse();
        } else {
            v.rotate_left(c);
        }
        return v;
    }
    let mut rest: Vec<usize> = (0..n).collect();
    let mut out = Vec::new();
    while rest.len() > 1 {
        let c = Ctl::choose(st, &format!("{kind}:{}", rest.len()), rest.len());
        out.push(rest.remove(c));
    }
    out.push(rest[0]);
    out
}

impl Controller for Ctl {
    fn workers_started(&self, n: usize) {
        let mut st = self.st.lock().unwrap();
        st.workers = n;
        st.used.clear();
        st.docs.clear();
        st.last_worker = None;
        st.events.push(format!("workers={n}"));
    }
    fn choose_receiver(&self, seq: u64, workers: usize) -> usize {
        let mut st = self.st.lock().unwrap();
        let w = if let Some(p) = st.policy {
            let n = st.total_docs_hint.max(1);
            match p {
                Policy::AllToOne => 0,
                Policy::RoundRobin => (seq as usize) % workers,
                Policy::ReverseRoundRobin => workers - 1 - (seq as usize) % workers,
                Policy::TwoHalves => {
                    if seq < n / 2 {
                        0
                    } else {
                        1 % workers
                    }
                }
                Policy::FirstAlone => {
                    if seq == 0 {
                        0
                    } else {
                        1 % workers
                    }
                }
                Policy::LastAlone => {
                    if seq + 1 == n {
                        1 % workers
                    } else {
                        0
                    }
                }
            }
        } else {
            // symmetry reduction: a worker already holding documents (in
            // first-use order) or one fresh worker
            let fresh = st.used.len() < workers;
            let options = st.used.len() + fresh as usize;
            let c = Ctl::choose(&mut st, "G1:receiver", options);
            if c < st.used.len() {
                st.used[c]
            } else {
                (0..workers).find(|w| !st.used.contains(w)).unwrap()
            }
        };
        if !st.used.contains(&w) {
            st.used.push(w);
        }
        if st.last_worker.is_some() && st.last_worker != Some(w) {
            st.switches += 1;
        }
        st.last_worker = Some(w);
        st.docs.entry(w).or_default().push(seq);
        w
    }
    fn order_ties(&self, groups: &[usize]) -> Vec<Vec<usize>> {
        let mut st = self.st.lock().unwrap();
        let mut out = Vec::new();
        for g in groups {
            out.push(choose_perm(&mut st, "G2:tie", *g));
        }
        st.events.push(format!("save_metas groups={groups:?} perms={out:?}"));
        out
    }
    fn merge_timing(&self, n: usize) -> MergeTiming {
        let mut st = self.st.lock().unwrap();
        let c = Ctl::choose(&mut st, "G3:merge-timing", 3);
        let t = [MergeTiming::BeforeReload, MergeTiming::AfterReload, MergeTiming::Killed][c];
        st.events.push(format!("merge n={n} timing={t:?}"));
        t
    }
    fn order_merge_inputs(&self, n: usize) -> Vec<usize> {
        let mut st = self.st.lock().unwrap();
        // identity, reverse, rotations (stated cap)
        let c = Ctl::choose(&mut st, "G4:merge-order", n + 1);
        let mut v: Vec<usize> = (0..n).collect();
        if c == n {
            v.reverse();
        } else {
            v.rotate_left(c);
        }
        st.events.push(format!("merge order={v:?}"));
        v
    }
}

// ---------------------------------------------------------------------------
// data sets

fn repo_dir() -> PathBuf {
    PathBuf::from(std::env::var("VH_REPO").unwrap_or_else(|_| "/repo".into()))
}

fn gunzip(p: &Path) -> Vec<u8> {
    let mut d = flate2::read::GzDecoder::new(std::fs::File::open(p).unwrap_or_else(|e| panic!("{}: {e}", p.display())));
    let mut v = Vec::new();
    d.read_to_end(&mut v).unwrap();
    v
}

fn gzip(bytes: &[u8], p: &Path) {
    let f = std::fs::File::create(p).unwrap();
    let mut e = flate2::write::GzEncoder::new(f, flate2::Compression::default());
    e.write_all(bytes).unwrap();
    e.finish().unwrap();
}

fn get<'a>(m: &'a Value, k: &str) -> Option<&'a Value> {
    match m {
        Value::Map(m) => m.get(&Value::Text(k.to_string())),
        _ => None,
    }
}

fn tokens_of(c: &Value) -> Vec<String> {
    match get(c, "tokens") {
        Some(Value::Array(t)) => t.iter().filter_map(|x| if let Value::Text(s) = x { Some(s.clone()) } else { None }).collect(),
        _ => vec![],
    }
}

fn shipped_constants(file: &str) -> Vec<Value> {
    let doc: Value = serde_cbor::from_slice(&gunzip(&repo_dir().join("db").join(file))).unwrap();
    match get(&doc, "constants") {
        Some(Value::Array(a)) => a.clone(),
        _ => vec![],
    }
}

/// Reduced data set: `ties` shipped constants that tie for the probe
/// `population` (regions with 4-letter names) plus non-tying fillers.
fn write_reduced(dir: &Path, ties: usize, fillers: usize) -> Vec<Vec<String>> {
    let _ = std::fs::remove_dir_all(dir);
    std::fs::create_dir_all(dir).unwrap();
    let pops = shipped_constants("populations.bin.gz");
    let mut chosen: Vec<Value> = pops
        .iter()
        .filter(|c| {
            let t = tokens_of(c);
            t.len() == 2 && t[0] == "population" && t[1].chars().count() == 4 && t[1].chars().all(|c| c.is_ascii_alphabetic())
        })
        .take(ties)
        .cloned()
        .collect();
    assert_eq!(chosen.len(), ties, "not enough tying constants in the shipped data");
    let astro = shipped_constants("astronomics.bin.gz");
    for c in astro.iter().filter(|c| tokens_of(c).len() == 2).take(fillers) {
        chosen.push(c.clone());
    }
    let toks: Vec<Vec<String>> = chosen.iter().map(tokens_of).collect();
    let doc = Value::Map([(Value::Text("constants".into()), Value::Array(chosen))].into_iter().collect());
    gzip(&serde_cbor::to_vec(&doc).unwrap(), &dir.join("a.bin.gz"));
    std::fs::copy(repo_dir().join("db/sources.bin.gz"), dir.join("sources.bin.gz")).unwrap();
    toks
}

fn write_full(dir: &Path) -> Vec<Vec<String>> {
    let _ = std::fs::remove_dir_all(dir);
    std::fs::create_dir_all(dir).unwrap();
    let mut toks = Vec::new();
    let mut names: Vec<String> = std::fs::read_dir(repo_dir().join("db")).unwrap().filter_map(|e| e.ok()).map(|e| e.file_name().to_string_lossy().to_string()).collect();
    names.sort();
    for n in names {
        std::fs::copy(repo_dir().join("db").join(&n), dir.join(&n)).unwrap();
        if n != "sources.bin.gz" {
            for c in shipped_constants(&n) {
                toks.push(tokens_of(&c));
            }
        }
    }
    toks
}

// ---------------------------------------------------------------------------
// sessions

#[derive(Clone, Copy, Debug, PartialEq, serde::Serialize, serde::Deserialize)]
enum Session {
    Mem,
    Disk,
}

fn typeable(words: &[String]) -> bool {
    !words.is_empty()
        && words.iter().all(|w| !w.is_empty() && w != "to" && w.chars().all(|c| c.is_ascii_alphanumeric() || c == '°' || c == '\''))
        && words[0].chars().next().map(|c| c.is_ascii_alphabetic()).unwrap_or(false)
}

fn probes(data: &[Vec<String>]) -> Vec<String> {
    let mut v: Vec<String> = Vec::new();
    for t in data {
        if typeable(t) {
            v.push(t.join(" "));
        }
    }
    for p in ["population", "p", "pop", "mass", "m", "a", "radius", "orbit", "e", "populat"] {
        v.push(p.to_string());
    }
    // every distinct single word of the data set on its own (a word that names exactly one
    // constant, a word many constants carry, a word that is a prefix of other words)
    for t in data {
        for w in t {
            if typeable(std::slice::from_ref(w)) {
                v.push(w.clone());
            }
        }
    }
    // every prefix of length 1..3 of every word, and every ordered pair of word initials: the
    // index is a prefix n-gram index, so these are the queries with the most ties - also ties
    // between constants that live in different data files
    let mut initials: Vec<char> = Vec::new();
    for t in data {
        for w in t {
            if !typeable(std::slice::from_ref(w)) {
                continue;
            }
            let cs: Vec<char> = w.chars().collect();
            for k in 1..=3usize.min(cs.len()) {
                v.push(cs[..k].iter().collect());
            }
            if !initials.contains(&cs[0]) {
                initials.push(cs[0]);
            }
        }
    }
    for a in &initials {
        for b in &initials {
            v.push(format!("{a} {b}"));
        }
    }
    v.retain(|p| p != "to" && !p.starts_with("to "));
    v.sort();
    v.dedup();
    v
}

/// Absolute part of the oracle (independent of the reference execution): a
/// probe made of a data-set constant's own words must return a constant that
/// carries those words.
fn own_words_ok(db: &anything::Db, q: &str) -> Result<(), String> {
    let parsed = anything::parse(q).map_err(|e| e.to_string())?;
    let mut d = Vec::new();
    let rs: Vec<_> = anything::query(&parsed, db, anything::Options::default().describe(), &mut d).collect();
    if rs.len() != 1 || rs[0].is_err() {
        return Err(format!("probe {q:?} (a constant's own words) did not return one value: {:?}", rs.iter().map(|r| r.as_ref().map(|n| n.value.numer().to_string()).map_err(|e| e.to_string())).collect::<Vec<_>>()));
    }
    match d.first() {
        Some(anything::Description::Constant(_, c)) => {
            for w in q.split(' ') {
                if !c.tokens.iter().any(|t| t.as_ref().eq_ignore_ascii_case(w)) {
                    return Err(format!("probe {q:?} returned {:?}, which does not carry `{w}`", c.tokens));
                }
            }
            Ok(())
        }
        None => Err(format!("probe {q:?}: no description")),
    }
}

fn answer(db: &anything::Db, q: &str) -> String {
    let parsed = match anything::parse(q) {
        Ok(p) => p,
        Err(e) => return format!("parse-error {e}"),
    };
    let mut d = Vec::new();
    let rs: Vec<String> = anything::query(&parsed, db, anything::Options::default().describe(), &mut d)
        .map(|r| match r {
            Ok(n) => format!("{}/{} {}", n.value.numer(), n.value.denom(), n.unit),
            Err(e) => format!("error: {e}"),
        })
        .collect();
    let ds: Vec<String> = d
        .iter()
        .map(|d| match d {
            // the constant that answered, and what its source resolves to in this session
            anything::Description::Constant(_, c) => format!("{:?} {} source {:?} -> {:?}", c.tokens, c.description, c.source, c.source.map(|id| db.get_source(id).map(|s| (s.id, s.description.to_string())))),
        })
        .collect();
    format!("{} <= {}", rs.join("; "), ds.join("; "))
}

/// Read the layout back from the on-disk index: ordered segments, each an
/// ordered list of the documents' token lists.
fn read_layout(index_dir: &Path) -> Result<Vec<Vec<String>>, String> {
    let index = tantivy::Index::open_in_dir(index_dir).map_err(|e| e.to_string())?;
    let reader = index.reader_builder().reload_policy(tantivy::ReloadPolicy::Manual).try_into().map_err(|e: tantivy::TantivyError| e.to_string())?;
    let searcher: tantivy::Searcher = tantivy::IndexReader::searcher(&reader);
    let field = index.schema().get_field("data").ok_or("no data field")?;
    let mut out = Vec::new();
    for sr in searcher.segment_readers() {
        let store = sr.get_store_reader(1).map_err(|e| e.to_string())?;
        let mut seg = Vec::new();
        for doc in 0..sr.max_doc() {
            if sr.is_deleted(doc) {
                continue;
            }
            let d = store.get(doc).map_err(|e| e.to_string())?;
            if let Some(tantivy::schema::Value::Bytes(b)) = d.get_first(field) {
                let v: Value = serde_cbor::from_slice(b).map_err(|e| e.to_string())?;
                seg.push(tokens_of(&v).join(" "));
            }
        }
        out.push(seg);
    }
    Ok(out)
}

struct Exec {
    points: Vec<Point>,
    diverged: Option<String>,
    /// per session: answers
    answers: Vec<Vec<String>>,
    /// per on-disk session: layout read back
    layouts: Vec<Vec<Vec<String>>>,
    belief: Vec<String>,
    open_errors: Vec<String>,
    workers: usize,
    switches: usize,
}

struct Scenario {
    name: &'static str,
    /// (session kind, asset dir)
    sessions: Vec<(Session, PathBuf)>,
    probes: Vec<String>,
    /// probes that are the full word set of a constant of the (last session's) data set
    own_words: HashSet<String>,
    total_docs: u64,
    /// the data set `own_words` and the reference answers belong to
    own_assets: PathBuf,
}

fn run(sc: &Scenario, prefix: &[usize], policy: Option<Policy>, scratch: &Path) -> Exec {
    let home = scratch.join("home");
    let _ = std::fs::remove_dir_all(&home);
    std::fs::create_dir_all(&home).unwrap();
    std::env::set_var("HOME", &home);
    std::env::set_var("XDG_DATA_HOME", home.join("data"));
    let ctl = Ctl::new(prefix.to_vec(), policy, sc.total_docs);
    verif_gate::install(ctl.clone());
    let mut answers = Vec::new();
    let mut layouts = Vec::new();
    let mut open_errors = Vec::new();
    for (kind, assets) in &sc.sessions {
        std::env::set_var("ANYTHING_VERIF_ASSET_DIR", assets);
        let db = match kind {
            Session::Mem => anything::Db::in_memory(),
            Session::Disk => anything::Db::open(),
        };
        match db {
            Ok(db) => {
                let first: Vec<String> = sc.probes.iter().map(|p| answer(&db, p)).collect();
                // the same database asked again must answer the same (lookups are read-only): a
                // difference here is not a scheduling effect but an answer that is not a function
                // of query and data
                for (i, p) in sc.probes.iter().enumerate() {
                    let again = answer(&db, p);
                    if again != first[i] {
                        open_errors.push(format!("the same database answered probe {p:?} twice differently: [{}] then [{again}]", first[i]));
                        break;
                    }
                }
                answers.push(first);
                for p in sc.probes.iter().filter(|p| p.contains(' ')).take(64) {
                    // only for data sets the session was built from
                    if sc.own_words.contains(p) && *assets == sc.own_assets {
                        if let Err(e) = own_words_ok(&db, p) {
                            open_errors.push(e);
                            break;
                        }
                    }
                }
                drop(db);
                if *kind == Session::Disk {
                    match read_layout(&home.join("data/facts/index")) {
                        Ok(l) => layouts.push(l),
                        Err(e) => open_errors.push(format!("read-back: {e}")),
                    }
                }
            }
            Err(e) => {
                open_errors.push(format!("{kind:?}: {e}"));
                answers.push(vec![]);
            }
        }
    }
    verif_gate::uninstall();
    let st = ctl.st.lock().unwrap();
    Exec {
        points: st.points.clone(),
        diverged: st.diverged.clone(),
        answers,
        layouts,
        belief: st.events.clone(),
        open_errors,
        workers: st.workers,
        switches: st.switches,
    }
}

// ---------------------------------------------------------------------------
// explorer: a pool of worker processes (the controller and the environment
// are process-global), fed with choice prefixes; every work item is one
// execution, its children are the alternatives after the prefix.

#[derive(serde::Serialize, serde::Deserialize, Clone)]
struct Task {
    scenario: usize,
    prefix: Vec<usize>,
    policy: Option<String>,
}

#[derive(serde::Serialize, serde::Deserialize)]
struct Outcome {
    points: Vec<Point>,
    diverged: Option<String>,
    answers: Vec<Vec<String>>,
    layouts: Vec<Vec<Vec<String>>>,
    events: Vec<String>,
    open_errors: Vec<String>,
    workers: usize,
}

#[derive(serde::Serialize, serde::Deserialize)]
struct Replay {
    property: String,
    scenario: String,
    choices: Vec<usize>,
    policy: Option<String>,
    detail: String,
}

fn verif_dir() -> PathBuf {
    PathBuf::from(std::env::var("VERIF_DIR").unwrap_or_else(|_| "/verif".into()))
}

fn policy_of(s: &Option<String>) -> Option<Policy> {
    match s.as_deref() {
        Some("AllToOne") => Some(Policy::AllToOne),
        Some("RoundRobin") => Some(Policy::RoundRobin),
        Some("ReverseRoundRobin") => Some(Policy::ReverseRoundRobin),
        Some("TwoHalves") => Some(Policy::TwoHalves),
        Some("FirstAlone") => Some(Policy::FirstAlone),
        Some("LastAlone") => Some(Policy::LastAlone),
        _ => None,
    }
}

/// The fixed list of scenarios of a tier (identical in parent and workers).
fn scenarios(scratch: &Path, thorough: bool) -> Vec<Scenario> {
    let (ties, fillers) = if thorough { (6, 1) } else { (4, 1) };
    let a_dir = scratch.join("assets-a");
    let a = write_reduced(&a_dir, ties, fillers);
    let b_dir = scratch.join("assets-b");
    let _b = write_reduced(&b_dir, 2, 0);
    let m_dir = scratch.join("assets-m");
    let m = write_reduced(&m_dir, 8, 0);
    let f_dir = scratch.join("assets-full");
    let full = write_full(&f_dir);
    let pa = probes(&a);
    let pf = probes(&full);
    let own = |d: &[Vec<String>]| -> HashSet<String> { d.iter().filter(|t| typeable(t)).map(|t| t.join(" ")).collect() };
    let (oa, om, of) = (own(&a), own(&m), own(&full));
    let mut v = vec![
        Scenario { name: "mem", sessions: vec![(Session::Mem, a_dir.clone())], probes: pa.clone(), own_words: oa.clone(), total_docs: a.len() as u64, own_assets: a_dir.clone() },
        Scenario { name: "disk-first,disk-reopen", sessions: vec![(Session::Disk, a_dir.clone()), (Session::Disk, a_dir.clone())], probes: pa.clone(), own_words: oa.clone(), total_docs: a.len() as u64, own_assets: a_dir.clone() },
        Scenario { name: "disk-other-data,disk-rebuild", sessions: vec![(Session::Disk, b_dir.clone()), (Session::Disk, a_dir.clone())], probes: pa.clone(), own_words: oa.clone(), total_docs: a.len() as u64, own_assets: a_dir.clone() },
        Scenario { name: "mem-8docs-merge", sessions: vec![(Session::Mem, m_dir.clone())], probes: probes(&m), own_words: om.clone(), total_docs: 8, own_assets: m_dir.clone() },
        Scenario { name: "full-mem", sessions: vec![(Session::Mem, f_dir.clone())], probes: pf.clone(), own_words: of.clone(), total_docs: full.len() as u64, own_assets: f_dir.clone() },
        Scenario { name: "full-disk,reopen", sessions: vec![(Session::Disk, f_dir.clone()), (Session::Disk, f_dir.clone())], probes: pf, own_words: of.clone(), total_docs: full.len() as u64, own_assets: f_dir.clone() },
    ];
    // session histories: every sequence of up to 2 (thorough 3) sessions over {in-memory build of
    // data A, on-disk session over data A, on-disk session over data B}; the disk sessions of one
    // history share a data directory, so a disk session after another is a reopen (same data) or a
    // rebuild (other data). Every session over data A must answer like the reference execution.
    let kinds: [(&str, Session, &PathBuf); 3] = [("M", Session::Mem, &a_dir), ("Da", Session::Disk, &a_dir), ("Db", Session::Disk, &b_dir)];
    let maxlen = if thorough { 4 } else { 2 };
    let mut seqs: Vec<Vec<usize>> = vec![vec![]];
    for _ in 0..maxlen {
        let mut next = Vec::new();
        for q in &seqs {
            if q.len() + 1 <= maxlen {
                for k in 0..3 {
                    let mut n = q.clone();
                    n.push(k);
                    next.push(n);
                }
            }
        }
        let done: Vec<Vec<usize>> = next.iter().filter(|q| !seqs.contains(q)).cloned().collect();
        seqs.extend(done);
    }
    seqs.retain(|q| !q.is_empty() && q.iter().any(|k| *k != 2));
    seqs.sort();
    seqs.dedup();
    for q in seqs {
        let name: &'static str = Box::leak(format!("hist:{}", q.iter().map(|k| kinds[*k].0).collect::<Vec<_>>().join(",")).into_boxed_str());
        v.push(Scenario { name, sessions: q.iter().map(|k| (kinds[*k].1, kinds[*k].2.clone())).collect(), probes: pa.clone(), own_words: oa.clone(), total_docs: a.len() as u64, own_assets: a_dir.clone() });
    }
    v
}

fn worker_main(thorough: bool) {
    let scratch = verif_dir().join("scratch").join(format!("c14w-{}", std::process::id()));
    let _ = std::fs::remove_dir_all(&scratch);
    std::fs::create_dir_all(&scratch).unwrap();
    let scs = scenarios(&scratch, thorough);
    let stdin = std::io::stdin();
    let mut line = String::new();
    // An execution that neither finishes nor burns CPU for a minute is a deadlock under the
    // controlled scheduler (of the gates, or of code whose build flow the gates do not fit). That is
    // a machinery failure, not a verdict about answers: stop the worker, the parent exits 2.
    static IN_TASK: std::sync::atomic::AtomicBool = std::sync::atomic::AtomicBool::new(false);
    std::thread::spawn(|| {
        let cpu = || {
            let mut ts = libc::timespec { tv_sec: 0, tv_nsec: 0 };
            unsafe { libc::clock_gettime(libc::CLOCK_PROCESS_CPUTIME_ID, &mut ts) };
            std::time::Duration::new(ts.tv_sec as u64, ts.tv_nsec as u32)
        };
        let mut idle = 0u32;
        let mut last = cpu();
        loop {
            std::thread::sleep(std::time::Duration::from_secs(1));
            let now = cpu();
            if IN_TASK.load(std::sync::atomic::Ordering::SeqCst) && now.saturating_sub(last) < std::time::Duration::from_millis(20) {
                idle += 1;
            } else {
                idle = 0;
            }
            last = now;
            if idle >= 60 {
                eprintln!("machinery: an execution made no progress for 60 s under the controlled scheduler (deadlock); the schedule worker stops");
                std::process::exit(3);
            }
        }
    });
    loop {
        line.clear();
        if stdin.read_line(&mut line).unwrap_or(0) == 0 {
            break;
        }
        let t: Task = match serde_json::from_str(line.trim()) {
            Ok(t) => t,
            Err(_) => break,
        };
        IN_TASK.store(true, std::sync::atomic::Ordering::SeqCst);
        let x = run(&scs[t.scenario], &t.prefix, policy_of(&t.policy), &scratch);
        IN_TASK.store(false, std::sync::atomic::Ordering::SeqCst);
        let o = Outcome { points: x.points, diverged: x.diverged, answers: x.answers, layouts: x.layouts, events: x.belief, open_errors: x.open_errors, workers: x.workers };
        println!("{}", serde_json::to_string(&o).unwrap());
        std::io::stdout().flush().unwrap();
    }
    let _ = std::fs::remove_dir_all(&scratch);
}

struct Pool {
    children: Vec<(std::process::Child, std::process::ChildStdin, std::io::BufReader<std::process::ChildStdout>)>,
}

impl Pool {
    fn new(n: usize, tier: &str) -> Pool {
        let exe = std::env::current_exe().unwrap();
        let mut children = Vec::new();
        for _ in 0..n {
            let mut c = std::process::Command::new(&exe).arg("worker").arg("--tier").arg(tier).stdin(std::process::Stdio::piped()).stdout(std::process::Stdio::piped()).stderr(std::process::Stdio::inherit()).env_remove("RUST_LOG").spawn().expect("spawn worker");
            let i = c.stdin.take().unwrap();
            let o = std::io::BufReader::new(c.stdout.take().unwrap());
            children.push((c, i, o));
        }
        Pool { children }
    }
    /// Run a batch of tasks (one per child at a time), return outcomes in order.
    fn run_batch(&mut self, tasks: &[Task]) -> Vec<Outcome> {
        use std::io::BufRead;
        let mut out: Vec<Option<Outcome>> = (0..tasks.len()).map(|_| None).collect();
        let n = self.children.len();
        let mut next = 0;
        while next < tasks.len() {
            let k = (tasks.len() - next).min(n);
            for j in 0..k {
                let line = serde_json::to_string(&tasks[next + j]).unwrap();
                writeln!(self.children[j].1, "{line}").unwrap();
                self.children[j].1.flush().unwrap();
            }
            for j in 0..k {
                if std::env::var("VS_PROGRESS").is_ok() {
                    eprintln!("waiting for {}", serde_json::to_string(&tasks[next + j]).unwrap());
                }
                let mut l = String::new();
                if self.children[j].2.read_line(&mut l).unwrap_or(0) == 0 {
                    eprintln!("machinery: a schedule worker died on task {:?}", serde_json::to_string(&tasks[next + j]).unwrap());
                    std::process::exit(2);
                }
                out[next + j] = Some(serde_json::from_str(l.trim()).expect("outcome"));
            }
            next += k;
        }
        out.into_iter().map(|o| o.unwrap()).collect()
    }
}

impl Drop for Pool {
    fn drop(&mut self) {
        for (c, i, _) in self.children.drain(..) {
            drop(i);
            let mut c = c;
            let _ = c.wait();
        }
    }
}

struct Stats {
    executions: u64,
    choice_points: u64,
    max_depth: usize,
    layouts: HashSet<String>,
    answer_vectors: HashSet<String>,
    readbacks: u64,
    samples: Vec<serde_json::Value>,
    workers_seen: HashSet<usize>,
    kinds: BTreeMap<String, u64>,
    per_scenario: BTreeMap<String, u64>,
}

fn write_evidence(tier: &str, stats: &Stats, violations: usize, wall: f64, exhaustive: bool, bounds: serde_json::Value) {
    let seed: i64 = std::env::var("VERIF_SEED").ok().and_then(|s| s.parse().ok()).unwrap_or(0);
    let ev = serde_json::json!({
        "property_id": "C14",
        "tier": tier,
        "seed": seed,
        "level": "model_checking",
        "coverage": {
            "states": stats.layouts.len().max(1),
            "transitions": stats.choice_points.max(1),
            "traces_validated_against_impl": stats.executions,
            "samples": stats.samples,
            "evaluations": stats.executions,
            "distinct_nontrivial": stats.layouts.len(),
            "rule": "stateless depth-first exploration of the scheduling choice points of the real index build (vendored tantivy 0.19.2 with gates): G1 which worker receives each document (symmetry-reduced: a worker already holding documents, in first-use order, or one fresh worker), G2 every order of each run of equally sized segments in save_metas, G3 merge timing {before reload, after reload, abandoned}, G4 merge input order {identity, rotations, reverse}; every execution is the real Db::in_memory()/Db::open() on a reduced data set of shipped constants that tie for the ambiguous probes; states = distinct index layouts (read back from the real on-disk index where one exists), transitions = choice points taken, traces = executions; a state is non-trivial when its layout differs from every other",
            "exhaustive": exhaustive,
            "executions": stats.executions,
            "max_choice_depth": stats.max_depth,
            "choice_points_by_gate": stats.kinds,
            "distinct_answer_vectors": stats.answer_vectors.len(),
            "layouts_read_back_from_disk": stats.readbacks,
            "worker_counts_requested_by_the_code": stats.workers_seen.iter().collect::<Vec<_>>(),
            "bounds": bounds,
        },
        "assumptions": [
            "the index layout (ordered segments of ordered documents) depends on thread scheduling only through the four gated seams; everything else the threads do commutes with respect to the layout (argued in DESIGN.md 2.6, cross-checked by reading layouts back from real on-disk indices)",
            "the vendored tantivy differs from the registry crate only by vendor/tantivy-gates.patch; with no controller installed the gates are no-ops",
            "worker symmetry: workers run identical code and differ only by the segment id, which G2/G4 own",
            "nondeterminism that does not pass through the gated seams (hash-map iteration order or thread timing inside `anything` itself, e.g. in how documents are fed) is NOT enumerated: it is only observed through the independent builds of this run (every session of every execution is a fresh build; see `executions` and the sessions per scenario) and through asking every probe twice - a sampling supplement, not part of the exhaustive claim",
        ],
        "wall_s": wall,
        "violations": violations,
    });
    let dir = verif_dir().join("evidence");
    let _ = std::fs::create_dir_all(&dir);
    std::fs::write(dir.join("C14.json"), serde_json::to_string_pretty(&ev).unwrap() + "\n").unwrap();
}


fn main() {
    let args: Vec<String> = std::env::args().collect();
    let mode = args.get(1).map(|s| s.as_str()).unwrap_or("run").to_string();
    let mut tier = std::env::var("VERIF_TIER").unwrap_or_else(|_| "quick".into());
    let mut replay: Option<String> = None;
    let mut i = 2;
    while i < args.len() {
        if args[i] == "--tier" {
            tier = args[i + 1].clone();
            i += 1;
        } else if args[i] == "--replay" {
            replay = Some(args[i + 1].clone());
            i += 1;
        }
        i += 1;
    }
    std::env::remove_var("RUST_LOG");
    let thorough = tier == "thorough";
    if mode == "worker" {
        worker_main(thorough);
        return;
    }
    let scratch = verif_dir().join("scratch").join(format!("c14-{}", std::process::id()));
    let _ = std::fs::remove_dir_all(&scratch);
    std::fs::create_dir_all(&scratch).unwrap();
    let started = Instant::now();
    let scs = scenarios(&scratch, thorough);

    if let Some(path) = replay {
        let r: Replay = serde_json::from_str(&std::fs::read_to_string(&path).expect("replay file")).expect("replay json");
        let (si, sc) = scs.iter().enumerate().find(|(_, s)| s.name == r.scenario).expect("scenario");
        let _ = si;
        let base = run(sc, &[], policy_of(&r.policy).map(|_| Policy::AllToOne), &scratch);
        let reference = base.answers.first().cloned().unwrap_or_default();
        let x = run(sc, &r.choices, policy_of(&r.policy), &scratch);
        let y = run(sc, &r.choices, policy_of(&r.policy), &scratch);
        println!("scenario {} choices {:?} policy {:?}", r.scenario, r.choices, r.policy);
        println!("events: {:#?}", x.belief);
        if x.answers != y.answers {
            println!("machinery: the schedule does not reproduce");
            std::process::exit(2);
        }
        let mut bad = false;
        for (si, a) in x.answers.iter().enumerate() {
            for (k, (p, ans)) in sc.probes.iter().zip(a.iter()).enumerate() {
                let refa = reference.get(k).cloned().unwrap_or_default();
                if &refa != ans {
                    println!("session #{si} probe {p:?}: {ans}\n      default schedule: {refa}");
                    bad = true;
                }
            }
        }
        let _ = std::fs::remove_dir_all(&scratch);
        std::process::exit(if bad { 1 } else { 0 });
    }

    let nproc = std::thread::available_parallelism().map(|n| n.get()).unwrap_or(8).min(16);
    let mut pool = Pool::new(nproc, &tier);
    let mut stats = Stats { executions: 0, choice_points: 0, max_depth: 0, layouts: HashSet::new(), answer_vectors: HashSet::new(), readbacks: 0, samples: vec![], workers_seen: HashSet::new(), kinds: BTreeMap::new(), per_scenario: BTreeMap::new() };
    let mut violations: Vec<Replay> = Vec::new();
    let deadline = started + std::time::Duration::from_secs(if thorough { 1500 } else { 45 });
    let mut exhaustive = true;
    let mut unfinished: Vec<String> = Vec::new();

    // DFS scenarios
    let mut dfs: Vec<usize> = if thorough { vec![0, 1, 2, 3] } else { vec![0, 1, 2] };
    dfs.extend((6..scs.len()).filter(|i| scs[*i].name.starts_with("hist:")));
    let mut reference: BTreeMap<usize, Vec<String>> = BTreeMap::new();
    for si in dfs {
        let sc = &scs[si];
        // scenarios over the same data share a reference
        let over_a = si <= 2 || sc.name.starts_with("hist:");
        let ref_key = if over_a { 0 } else { si };
        let mut frontier: Vec<Vec<usize>> = vec![vec![]];
        while !frontier.is_empty() {
            if Instant::now() > deadline {
                exhaustive = false;
                unfinished.push(format!("{} ({} prefixes left)", sc.name, frontier.len()));
                break;
            }
            let take = frontier.len().min(nproc * 4);
            let batch: Vec<Vec<usize>> = frontier.drain(frontier.len() - take..).collect();
            let tasks: Vec<Task> = batch.iter().map(|p| Task { scenario: si, prefix: p.clone(), policy: None }).collect();
            let outs = pool.run_batch(&tasks);
            for (prefix, x) in batch.iter().zip(outs.into_iter()) {
                if let Some(d) = &x.diverged {
                    eprintln!("machinery: schedule diverged while replaying a prefix: {d}");
                    std::process::exit(2);
                }
                stats.executions += 1;
                *stats.per_scenario.entry(sc.name.to_string()).or_default() += 1;
                stats.choice_points += x.points.len() as u64;
                stats.max_depth = stats.max_depth.max(x.points.len());
                stats.workers_seen.insert(x.workers);
                for p in &x.points {
                    *stats.kinds.entry(p.kind.split(':').next().unwrap_or("").to_string()).or_default() += 1;
                }
                let choices: Vec<usize> = x.points.iter().map(|p| p.chosen).collect();
                for l in &x.layouts {
                    stats.layouts.insert(format!("{l:?}"));
                    stats.readbacks += 1;
                }
                if x.layouts.is_empty() {
                    stats.layouts.insert(format!("{}:{:?}", sc.name, choices));
                }
                if stats.samples.len() < 6 || (stats.executions % 499 == 0 && stats.samples.len() < 16) {
                    stats.samples.push(serde_json::json!({"scenario": sc.name, "choices": choices, "points": x.points.iter().map(|p| format!("{}/{}", p.kind, p.options)).collect::<Vec<_>>(), "events": x.events, "layout_read_back": x.layouts.last()}));
                }
                let mut bad: Option<String> = None;
                for e in &x.open_errors {
                    bad = Some(format!("session failed: {e}"));
                }
                for (k, a) in x.answers.iter().enumerate() {
                    // sessions over another data set (the stale index that is
                    // about to be rebuilt) have their own answers
                    if sc.sessions[k].1 != scs[0].sessions[0].1 && over_a {
                        continue;
                    }
                    stats.answer_vectors.insert(format!("{}{a:?}", ref_key));
                    match reference.get(&ref_key) {
                        None => {
                            reference.insert(ref_key, a.clone());
                        }
                        Some(r) => {
                            if r != a && bad.is_none() {
                                let j = r.iter().zip(a.iter()).position(|(x, y)| x != y).unwrap_or(0);
                                bad = Some(format!(
                                    "session #{k} ({:?}) answers probe {:?} with [{}]; the reference execution answered [{}]",
                                    sc.sessions[k].0,
                                    sc.probes.get(j),
                                    a.get(j).cloned().unwrap_or_default(),
                                    r.get(j).cloned().unwrap_or_default()
                                ));
                            }
                        }
                    }
                }
                if let Some(mut why) = bad {
                    // (an answer that changes between two lookups on one database cannot be
                    // expected to reproduce; that irreproducibility is the finding itself)
                    if violations.len() < 4 && !why.contains("twice differently") {
                        // a failing schedule is run twice more. Every choice at the index writer's
                        // seams is replayed, so if the answers differ between these runs they
                        // depend on something that is neither the query, nor the data, nor the
                        // schedule - which is what the property forbids. (On a tree where the
                        // property holds nothing fails, so this path is never taken there.)
                        let again = pool.run_batch(&[Task { scenario: si, prefix: choices.clone(), policy: None }, Task { scenario: si, prefix: choices.clone(), policy: None }]);
                        if again.iter().any(|a| a.diverged.is_some()) {
                            eprintln!("machinery: schedule diverged while replaying a failing schedule");
                            std::process::exit(2);
                        }
                        if again[0].answers != x.answers || again[1].answers != x.answers {
                            why.push_str("; moreover the same schedule, replayed choice for choice, answered differently when run again: the answers depend on something other than the query, the data and the schedule at the index writer's seams");
                        }
                    }
                    violations.push(Replay { property: "C14".into(), scenario: sc.name.into(), choices: choices.clone(), policy: None, detail: why });
                }
                for i in prefix.len()..x.points.len() {
                    for alt in 1..x.points[i].options {
                        let mut p: Vec<usize> = choices[..i].to_vec();
                        p.push(alt);
                        frontier.push(p);
                    }
                }
            }
        }
    }

    // full shipped data under corner schedules (policies decide G1; G3 is pinned through the prefix)
    let policies = ["AllToOne", "RoundRobin", "ReverseRoundRobin", "TwoHalves", "FirstAlone", "LastAlone"];
    let mut corner_runs = 0;
    let mut ref_full: Option<Vec<String>> = None;
    for si in [4usize, 5] {
        let sc = &scs[si];
        let tasks: Vec<Task> = policies.iter().map(|p| Task { scenario: si, prefix: vec![], policy: Some(p.to_string()) }).collect();
        let first = pool.run_batch(&tasks);
        let mut more: Vec<Task> = Vec::new();
        for (t, x) in tasks.iter().zip(first.iter()) {
            // every alternative of every tie-order (G2, G4) and merge-timing (G3) point of the
            // policy run: one deviation each (a commit that leaves several equal-sized segments
            // is ordered by a randomly seeded HashMap in the real crate)
            for (i, q) in x.points.iter().enumerate() {
                if !(q.kind.starts_with("G2") || q.kind.starts_with("G3") || q.kind.starts_with("G4")) {
                    continue;
                }
                for alt in 1..q.options {
                    let mut pre: Vec<usize> = x.points[..i].iter().map(|q| q.chosen).collect();
                    pre.push(alt);
                    more.push(Task { scenario: si, prefix: pre, policy: t.policy.clone() });
                }
            }
        }
        let second = pool.run_batch(&more);
        for (t, x) in tasks.iter().zip(first.into_iter()).chain(more.iter().zip(second.into_iter())) {
            corner_runs += 1;
            stats.executions += 1;
            *stats.per_scenario.entry(sc.name.to_string()).or_default() += 1;
            stats.choice_points += x.points.len() as u64;
            stats.workers_seen.insert(x.workers);
            for p in &x.points {
                *stats.kinds.entry(p.kind.split(':').next().unwrap_or("").to_string()).or_default() += 1;
            }
            for l in &x.layouts {
                let sizes: Vec<usize> = l.iter().map(|s| s.len()).collect();
                let h = l.iter().flatten().fold(0u64, |h, s| h.wrapping_mul(1099511628211).wrapping_add(s.bytes().fold(7u64, |a, b| a.wrapping_mul(31).wrapping_add(b as u64))));
                stats.layouts.insert(format!("full:{sizes:?}:{h:x}"));
                stats.readbacks += 1;
            }
            if stats.samples.len() < 20 {
                stats.samples.push(serde_json::json!({"scenario": sc.name, "policy": t.policy, "prefix": t.prefix, "events": x.events, "segment_sizes_read_back": x.layouts.last().map(|l| l.iter().map(|s| s.len()).collect::<Vec<_>>())}));
            }
            for e in &x.open_errors {
                violations.push(Replay { property: "C14".into(), scenario: sc.name.into(), choices: t.prefix.clone(), policy: t.policy.clone(), detail: format!("session failed: {e}") });
            }
            for (k, a) in x.answers.iter().enumerate() {
                stats.answer_vectors.insert(format!("full{:x}", a.iter().fold(0u64, |h, s| h.wrapping_mul(31).wrapping_add(s.bytes().fold(7u64, |a, b| a.wrapping_mul(131).wrapping_add(b as u64))))));
                match &ref_full {
                    None => ref_full = Some(a.clone()),
                    Some(r) => {
                        if r != a {
                            let j = r.iter().zip(a.iter()).position(|(x, y)| x != y).unwrap_or(0);
                            violations.push(Replay {
                                property: "C14".into(),
                                scenario: sc.name.into(),
                                choices: t.prefix.clone(),
                                policy: t.policy.clone(),
                                detail: format!("full shipped data, schedule {:?} (prefix {:?}), session #{k}: probe {:?} answered [{}]; under AllToOne it answered [{}]", t.policy, t.prefix, sc.probes.get(j), a.get(j).cloned().unwrap_or_default(), r.get(j).cloned().unwrap_or_default()),
                            });
                        }
                    }
                }
            }
        }
    }
    drop(pool);
    let wall = started.elapsed().as_secs_f64();
    let bounds = serde_json::json!({
        "tie_documents": if thorough { 6 } else { 4 }, "filler_documents": 1,
        "scenarios_explored_exhaustively": scs.iter().enumerate().filter(|(i, s)| *i < if thorough { 4 } else { 3 } || s.name.starts_with("hist:")).map(|(_, s)| s.name).collect::<Vec<_>>(),
        "session_histories": format!("all sequences of <= {} sessions over {{mem(A), disk(A), disk(B)}} containing a session over A", if thorough { 4 } else { 2 }),
        "executions_per_scenario": stats.per_scenario,
        "full_data_corner_schedules": corner_runs,
        "tie_order_cap_above": 6,
        "unfinished_at_wall_cap": unfinished,
    });
    let dir = verif_dir().join("replays").join("C14");
    let _ = std::fs::create_dir_all(&dir);
    let mut seen = HashSet::new();
    let mut printed = 0;
    // shortest schedules first
    violations.sort_by_key(|v| (v.choices.iter().filter(|c| **c != 0).count(), v.choices.len()));
    for v in &violations {
        if !seen.insert((v.scenario.clone(), v.policy.clone())) || printed >= 10 {
            continue;
        }
        let path = dir.join(format!("{}-{}.json", v.scenario.replace(',', "_"), printed));
        std::fs::write(&path, serde_json::to_string_pretty(v).unwrap()).unwrap();
        println!("VIOLATION property=C14 replay={}", path.display());
        println!("  schedule: scenario {} choices {:?} policy {:?}", v.scenario, v.choices, v.policy);
        println!("  why : {}", v.detail);
        printed += 1;
    }
    write_evidence(&tier, &stats, violations.len(), wall, exhaustive, bounds);
    eprintln!(
        "C14 {tier}: executions={} choice_points={} layouts={} answer_vectors={} readbacks={} workers={:?} violations={} exhaustive={exhaustive} wall={wall:.1}s",
        stats.executions,
        stats.choice_points,
        stats.layouts.len(),
        stats.answer_vectors.len(),
        stats.readbacks,
        stats.workers_seen,
        violations.len()
    );
    let _ = std::fs::remove_dir_all(&scratch);
    std::process::exit(if violations.is_empty() { 0 } else { 1 });
}
