#![allow(dead_code)]
mod exprcheck;
mod fw;
mod obs;
mod props;
mod refcalc;
mod refdb;
mod tables;
mod units;

use fw::{Tier, WorkerArgs};

fn usage() -> ! {
    eprintln!("usage: vh run <ID> [--tier quick|thorough] | vh worker <ID> <tier> <shard> <n> <start> <deadline> | vh eval <query> | vh replay <ID> <file>");
    std::process::exit(2)
}

fn main() {
    let args: Vec<String> = std::env::args().collect();
    if args.len() < 2 {
        usage();
    }
    match args[1].as_str() {
        "run" => {
            let id = args.get(2).cloned().unwrap_or_else(|| usage());
            let mut tier = std::env::var("VERIF_TIER").map(|t| Tier::parse(&t)).unwrap_or(Tier::Quick);
            let mut i = 3;
            while i < args.len() {
                if args[i] == "--tier" && i + 1 < args.len() {
                    tier = Tier::parse(&args[i + 1]);
                    i += 1;
                }
                i += 1;
            }
            let prop = props::find(&id).unwrap_or_else(|| {
                eprintln!("machinery: unknown property {id}");
                std::process::exit(2)
            });
            if prop.observes_units() {
                if let Err(why) = obs::selfcheck() {
                    eprintln!("machinery: {why}");
                    std::process::exit(2)
                }
            }
            let deadline = std::env::var("VH_DEADLINE_S").ok().and_then(|s| s.parse().ok()).unwrap_or(tier.pick(45, 900));
            let nshards = std::env::var("VH_SHARDS").ok().and_then(|s| s.parse().ok()).unwrap_or(16);
            let code = fw::run_parent(prop.as_ref(), fw::RunOpts { tier, nshards, deadline_s: deadline });
            std::process::exit(code);
        }
        "dbdump" => {
            let cs = refdb::constants();
            println!("{} constants; sources {:?}", cs.len(), refdb::source_ids());
            for c in cs.iter().take(args.get(2).and_then(|s| s.parse().ok()).unwrap_or(5)) {
                println!("{:?} | {:?} | {:?} | {:?} | {:?}", c.tokens, c.description, c.source, c.value.as_ref().map(|v| v.to_string()), c.unit);
            }
        }
        "open-probe" => props::c15::open_probe_main(),
        "profiles" => {
            let prop = props::find(args.get(2).map(|s| s.as_str()).unwrap_or("")).unwrap_or_else(|| usage());
            let tier = Tier::parse(args.get(3).map(|s| s.as_str()).unwrap_or("quick"));
            for p in prop.profiles(tier) {
                println!("{p}");
            }
        }
        "worker" => {
            if args.len() < 8 {
                usage();
            }
            let prop = props::find(&args[2]).unwrap_or_else(|| usage());
            let rep = fw::run_worker(
                prop.as_ref(),
                WorkerArgs {
                    tier: Tier::parse(&args[3]),
                    shard: args[4].parse().unwrap(),
                    nshards: args[5].parse().unwrap(),
                    start: args[6].parse().unwrap(),
                    deadline_s: args[7].parse().unwrap(),
                },
            );
            println!("{}", serde_json::to_string(&rep).unwrap());
        }
        "eval" => {
            let q = args[2..].join(" ");
            let db = anything::Db::in_memory().expect("db");
            match obs::eval(&db, &q) {
                None => println!("parse() failed"),
                Some(rs) => {
                    for r in rs {
                        println!("{}", r.short());
                        if let obs::Res::Ok { value, unit, .. } = &r {
                            println!("   unit parts: {:?}", unit);
                            match units::si_of(value, unit, false) {
                                Ok(si) => println!("   SI: {}", si.short()),
                                Err(e) => println!("   SI: n/a ({e})"),
                            }
                        }
                    }
                }
            }
        }
        "replay" => {
            let id = args.get(2).cloned().unwrap_or_else(|| usage());
            let file = args.get(3).cloned().unwrap_or_else(|| usage());
            let prop = props::find(&id).unwrap_or_else(|| usage());
            let text = std::fs::read_to_string(&file).expect("replay file");
            let v: serde_json::Value = serde_json::from_str(&text).expect("json");
            let key = v["key"].as_str().unwrap_or("").to_string();
            let fam = v["fam"].as_str().unwrap_or("").to_string();
            let tier = Tier::Thorough;
            let mut env = fw::Env::new(tier);
            if let Some(p) = v["profile"].as_str() {
                eprintln!("(recorded under profile {p}; this binary is profile {})", env.profile);
            }
            let mut found = None;
            for t in [Tier::Quick, Tier::Thorough] {
                prop.generate(t, &mut |c: fw::Case| {
                    if found.is_none() && c.key == key && c.fam == fam {
                        found = Some(c);
                    }
                });
                if found.is_some() {
                    break;
                }
            }
            match found {
                None => {
                    eprintln!("machinery: case not found in the enumeration");
                    std::process::exit(2);
                }
                Some(c) => {
                    println!("case [{}] {}", c.fam, c.key);
                    let out = prop.explain(&mut env, &c);
                    println!("{out}");
                    std::process::exit(if out.starts_with("FAIL") { 1 } else { 0 });
                }
            }
        }
        _ => usage(),
    }
}
