//! Observation of the subject through its public API only.

use anything::{Compound, Db, Description, Numeric, Options};
use num::{BigInt, BigRational};
use serde_cbor::Value;
use std::collections::BTreeMap;

/// Key of a unit inside a compound as seen through the public Serialize impl.
#[derive(Clone, Debug, PartialEq, Eq, PartialOrd, Ord, Hash)]
pub enum UKey {
    /// A base unit by its variant name (`"Meter"`, `"KiloGram"`, ...).
    Base(String),
    /// A derived unit by its numeric id.
    Derived(u32),
}

/// (unit, power, prefix)
pub type UnitParts = Vec<(UKey, i32, i32)>;

#[derive(Clone, Debug)]
pub enum Res {
    Ok { value: BigRational, unit: UnitParts, unit_text: String },
    Err { msg: String, start: usize, end: usize },
}

impl Res {
    pub fn is_ok(&self) -> bool {
        matches!(self, Res::Ok { .. })
    }
    pub fn short(&self) -> String {
        match self {
            Res::Ok { value, unit_text, .. } => {
                let v = value.to_string();
                let v = if v.len() > 80 { format!("{}…({} chars)", &v[..40], v.len()) } else { v };
                format!("Ok({} [{}])", v, unit_text)
            }
            Res::Err { msg, start, end } => format!("Err({msg} @{start}..{end})"),
        }
    }
}

pub fn rat_of(r: &anything::Rational) -> BigRational {
    BigRational::new(r.numer().clone(), r.denom().clone())
}

pub fn unit_parts(c: &Compound) -> UnitParts {
    let bytes = serde_cbor::to_vec(c).expect("compound serialises");
    let v: Value = serde_cbor::from_slice(&bytes).expect("cbor value");
    unit_parts_of_value(&v)
}

/// The same reading applied to a raw CBOR unit value (e.g. the `unit` field of
/// a shipped constant decoded without any of the subject's types).
pub fn unit_parts_of_value(v: &Value) -> UnitParts {
    let mut out = Vec::new();
    let names = match &v {
        Value::Map(m) => m.get(&Value::Text("names".into())).cloned(),
        _ => None,
    };
    let names = match names {
        Some(Value::Map(m)) => m,
        _ => BTreeMap::new(),
    };
    for (k, st) in names {
        let key = match &k {
            Value::Text(s) => UKey::Base(s.clone()),
            Value::Map(m) => match m.get(&Value::Text("Derived".into())) {
                Some(Value::Integer(i)) => UKey::Derived(*i as u32),
                _ => UKey::Base(format!("{k:?}")),
            },
            other => UKey::Base(format!("{other:?}")),
        };
        let (mut power, mut prefix) = (0i32, 0i32);
        if let Value::Map(m) = &st {
            if let Some(Value::Integer(i)) = m.get(&Value::Text("power".into())) {
                power = *i as i32;
            }
            if let Some(Value::Integer(i)) = m.get(&Value::Text("prefix".into())) {
                prefix = *i as i32;
            }
        }
        out.push((key, power, prefix));
    }
    out.sort();
    out
}

/// The structure of a unit (which units, which powers, which prefixes) is read from the CBOR
/// encoding of `Compound`, the only structural view the public API offers. A build that encodes
/// units differently would make every unit look empty; that must stop the run as a machinery
/// failure, never produce verdicts.
pub fn selfcheck() -> Result<(), String> {
    let probe = |s: &str| -> Result<UnitParts, String> { s.parse::<Compound>().map(|c| unit_parts(&c)).map_err(|_| format!("`{s}` does not parse as a unit")) };
    let a = probe("km/s^2")?;
    let mut shape: Vec<(i32, i32)> = a.iter().map(|p| (p.1, p.2)).collect();
    shape.sort();
    let b = probe("N*m")?;
    let known = a.iter().chain(b.iter()).all(|p| crate::units::def_of_key(&p.0).is_some());
    let ok = known && shape == vec![(-2, 0), (1, 3)] && b.len() == 2 && b.iter().any(|p| matches!(p.0, UKey::Derived(_))) && b.iter().any(|p| matches!(p.0, UKey::Base(_)));
    if ok {
        Ok(())
    } else {
        Err(format!("the harness cannot read the structure of a unit from this build's CBOR encoding of Compound (km/s^2 reads as {a:?}, N*m as {b:?}); unit-observing checks cannot run"))
    }
}

pub fn res_of(r: Result<Numeric, anything::Error>) -> Res {
    match r {
        Ok(n) => Res::Ok {
            value: rat_of(&n.value),
            unit: unit_parts(&n.unit),
            unit_text: n.unit.to_string(),
        },
        Err(e) => {
            let r = e.range();
            Res::Err { msg: e.to_string(), start: r.start, end: r.end }
        }
    }
}

/// Evaluate a query; `None` if `parse` itself failed (tree error).
pub fn eval(db: &Db, q: &str) -> Option<Vec<Res>> {
    let parsed = anything::parse(q).ok()?;
    let mut d = Vec::new();
    let out: Vec<Res> = anything::query(&parsed, db, Options::default(), &mut d).map(res_of).collect();
    Some(out)
}

pub struct Described {
    pub results: Vec<Res>,
    /// (phrase, constant)
    pub descriptions: Vec<(String, anything::Constant)>,
}

pub fn eval_described(db: &Db, q: &str, describe: bool) -> Option<Described> {
    let parsed = anything::parse(q).ok()?;
    let mut d = Vec::new();
    let opts = if describe { Options::default().describe() } else { Options::default() };
    let results: Vec<Res> = anything::query(&parsed, db, opts, &mut d).map(res_of).collect();
    let descriptions = d
        .into_iter()
        .map(|d| match d {
            Description::Constant(p, c) => (p.to_string(), c),
        })
        .collect();
    Some(Described { results, descriptions })
}

/// The single result of a query, or a description of why there is not
/// exactly one.
pub fn eval_one(db: &Db, q: &str) -> Result<Res, String> {
    match eval(db, q) {
        None => Err("parse() failed".into()),
        Some(v) if v.len() == 1 => Ok(v.into_iter().next().unwrap()),
        Some(v) => Err(format!("{} results: {}", v.len(), v.iter().map(|r| r.short()).collect::<Vec<_>>().join("; "))),
    }
}

pub fn big(n: i64) -> BigInt {
    BigInt::from(n)
}

pub fn ratio(n: i64, d: i64) -> BigRational {
    BigRational::new(BigInt::from(n), BigInt::from(d))
}

pub fn pow10(k: i64) -> BigRational {
    let p = num::pow(BigInt::from(10), k.unsigned_abs() as usize);
    if k >= 0 {
        BigRational::from_integer(p)
    } else {
        BigRational::new(BigInt::from(1), p)
    }
}

pub fn rpow(b: &BigRational, n: i64) -> Option<BigRational> {
    use num::Zero;
    if n >= 0 {
        Some(num::pow(b.clone(), n as usize))
    } else if b.is_zero() {
        None
    } else {
        Some(num::pow(b.recip(), (-n) as usize))
    }
}

/// A unit word of `q` that the tool rejects on its own (`1 <word>` is an error), if any.
/// Decided structurally - by asking the tool about the word alone - never by the wording of an
/// error message. Words glued to a preceding digit (`1e3`, `2m`) are skipped.
pub fn rejected_unit_word(db: &anything::Db, q: &str) -> Option<String> {
    let cs: Vec<char> = q.chars().collect();
    let mut i = 0;
    while i < cs.len() {
        if cs[i].is_alphabetic() || cs[i] == '°' {
            let start = i;
            while i < cs.len() && (cs[i].is_alphabetic() || cs[i] == '°') {
                i += 1;
            }
            let glued = start > 0 && (cs[start - 1].is_ascii_digit() || cs[start - 1] == '.');
            let w: String = cs[start..i].iter().collect();
            if !glued && w != "to" {
                if let Ok(Res::Err { .. }) = eval_one(db, &format!("1 {w}")) {
                    return Some(w);
                }
            }
        } else {
            i += 1;
        }
    }
    None
}
