//! C11 — any input yields values or located errors, never a crash.

use crate::fw::{self, Case, Env, Prop, Tier, Verdict};
use crate::obs::{self, Res};
use crate::refcalc::ref_decimal;

/// The first caret underline of a rendered diagnostic: (the source line as shown, the column the
/// carets start at, their number). `None` when the rendering has no `N │ source` / `│ ^^^` pair.
fn caret_underline(text: &str) -> Option<(String, usize, usize)> {
    let lines: Vec<&str> = text.lines().collect();
    for i in 1..lines.len() {
        let l = lines[i];
        let Some(bar) = l.find('│') else { continue };
        if !l[..bar].trim().is_empty() {
            continue;
        }
        let body: Vec<char> = l[bar + '│'.len_utf8()..].chars().skip(1).collect();
        let col = body.iter().take_while(|c| **c == ' ').count();
        let n = body.iter().skip(col).take_while(|c| **c == '^').count();
        if n == 0 {
            continue;
        }
        for j in (0..i).rev() {
            let s = lines[j];
            if let Some(b) = s.find('│') {
                let g = s[..b].trim();
                if !g.is_empty() && g.chars().all(|c| c.is_ascii_digit()) {
                    let src: String = s[b + '│'.len_utf8()..].chars().skip(1).collect();
                    return Some((src, col, n));
                }
            }
        }
    }
    None
}
use anything::rational::DisplaySpec;
use anything::Options;
use codespan_reporting::diagnostic::{Diagnostic, Label};
use codespan_reporting::files::SimpleFiles;
use codespan_reporting::term;
use codespan_reporting::term::termcolor::Buffer;
use num::{Signed, ToPrimitive};

pub struct C11;

pub const TOKENS: [&str; 46] = [
    "0", "1", "2", "10", "0.5", ".5", "1.", "1e3", "1e999", "-1", "+2", "99", "m", "km", "s", "kg", "N", "J", "°C", "°F", "K", "c", "g", "to", "foo", "population", "finland", "round", "floor", "ceil", "sin", "+", "-",
    "*", "/", "^", "**", "%", ",", "(", ")", "{", "}", "1e-999", "-273.15", "-459.67",
];

const STRUCT_TOKENS: [&str; 12] = ["1", "99", "m", "to", "+", "/", "^", "(", ")", ",", "round", "°C"];

pub const UNI: [&str; 30] = [
    "0", "9", "e", "m", "t", "o", ".", "+", "-", "*", "/", "^", "%", "(", ")", ",", "{", "}", " ", "\t", "\u{a0}", "\u{2003}", "°", "é", "Ω", "€", "😀", "\u{301}", "\0", "'",
];

const SEEDS: [&str; 66] = [
    "1 K / -273.15°C", "10 J / -273.15 °C", "1 m / -459.67°F", "3 * (2 kg / (1°C - 274.15°C)) to kg/K", "1 / (0 °C to K)", "2 m / (1 km - 1000 m)",
    "3dl to m^3", "1000Gbtu to MWh", "population finland / population world", "32500 / round(population finland)", "3N / 10kg",
    "0.05c / 500 years * mass of earth to N", "(0.05c to m/s) / (500years to seconds) * mass of earth to N", "1s + 59s to min", "1 newton^2 second / 1 second", "10km / 10km/s",
    "1V^3 / 1V^10", "1Wb*V * 1V", "(1lb / 7000) to gr", "round(1.234, 2)", "floor(-1.5 km)",
    "2 * (3 + 4) ^ 2 - 1", "100 °C to °F", "1 m/°C to m/K", "{ foo bar }", "12.5% * 200",
    "sin(1) + cos(0)", "1e3 kg * 9.80665 m/s^2 to N", "1 + 2 * 3 - 4 / 5 + (6 - 7) * 8 ^ 2 + round(9.5) - floor(1.5) + 1 km to m", "((((1 + 2) * 3) - 4) / 5) ^ 2", "1 J/N + 1 m",
    "(2 m) ^ 2 * 3 kg / (4 s ^ 2)", "0 ^ -1", "1 / 0 + 1", "ceil(2.5 decades) to years", "1e999 * 1e-999",
    "99 ^ 99", "-1 ^ 99 * 2 ** 10", "1 mi to km to m to cm to mm", "5 ft + 3 in to cm", "1 kWh to J to btu to eV",
    "round(floor(ceil(1.5)))", "round(1, 2, 3)", "mercury mass / earth mass", "earth diameter to mi", "1 au / 1 c to min",
    "0.5 * 50% + 1.e2", "1 °F + 1 °C", "1 K ^ -1 to °C ^ -1", "1 kg m / s ^ 2 to N", "2 N m to J",
    "1 m * 1 m * 1 m to l", "1 gal to l to cup to tsp", "1 t to kg + 1 ton", "foo(1, 2)", "foo bar baz 1 2 3",
    "1 2 3", "m m m", "to to to", "( ) ( )", "{ } { }",
    "1 , 2 , 3", "% % %", "+ - * /", "1 to", "to m",
];

pub enum Bad {
    Class(&'static str, String),
}

/// A cheap conservative bound on the size of any intermediate result; `None`
/// when the input is outside the statement's bounds (power operand with more
/// than two digits) or may be astronomically large.
fn in_domain(tokens: &[&str]) -> Result<(), &'static str> {
    let mut bits: f64 = 0.0;
    let mut exps: f64 = 1.0;
    let mut seen_pow = false;
    for t in tokens {
        if *t == "^" || *t == "**" {
            seen_pow = true;
            continue;
        }
        if let Some(v) = ref_decimal(t) {
            let b = (v.numer().bits() + v.denom().bits()) as f64;
            bits += b.max(1.0);
            if seen_pow {
                if v.is_integer() {
                    match v.numer().abs().to_u64() {
                        Some(n) if n <= 99 => exps *= (n.max(1)) as f64,
                        _ => return Err("a number after a power operator has more than two digits"),
                    }
                }
            }
        }
    }
    if !seen_pow {
        return Ok(());
    }
    if bits * exps > 30_000.0 {
        return Err("result may be astronomically large");
    }
    Ok(())
}

/// The robustness judgement for one input string.
pub fn robust(db: &anything::Db, s: &str) -> Result<u64, Bad> {
    let parsed = match anything::parse(s) {
        Ok(p) => p,
        Err(e) => return Err(Bad::Class("no-tree", format!("parse() returned an error instead of a tree: {e}"))),
    };
    let mut d = Vec::new();
    let mut files = SimpleFiles::new();
    let id = files.add("<in>", s.to_string());
    let config = term::Config::default();
    let cap = s.len() + 8;
    let mut n = 0usize;
    let mut h = 0u64;
    let mut spec = DisplaySpec::default();
    spec.limit = 12;
    spec.exponent_limit = 12;
    for r in anything::query(&parsed, db, Options::default().describe(), &mut d) {
        n += 1;
        if n > cap {
            return Err(Bad::Class("unbounded-results", format!("more than {cap} results")));
        }
        match r {
            Ok(v) => {
                let text = format!("{} {}", v.value.display(&spec), v.unit.display(true));
                let _ = format!("{}/{}", v.value.numer(), v.value.denom());
                h = h.wrapping_mul(31).wrapping_add(fw::hash_str(&text));
            }
            Err(e) => {
                let msg = e.to_string();
                if msg.trim().is_empty() {
                    return Err(Bad::Class("empty-message", "error with an empty message".into()));
                }
                let r = e.range();
                if r.start > r.end || r.end > s.len() {
                    return Err(Bad::Class("range-outside", format!("error `{msg}` has range {}..{} outside the {}-byte input", r.start, r.end, s.len())));
                }
                if !s.is_char_boundary(r.start) || !s.is_char_boundary(r.end) {
                    return Err(Bad::Class("range-not-on-char-boundary", format!("error `{msg}` has range {}..{} inside a character", r.start, r.end)));
                }
                let labels = vec![Label::primary(id, r.clone()).with_message(msg.clone())];
                let diagnostic = Diagnostic::error().with_message(msg.clone()).with_labels(labels);
                let mut buf = Buffer::no_color();
                if let Err(er) = term::emit(&mut buf, &config, &files, &diagnostic) {
                    return Err(Bad::Class("renderer-error", format!("diagnostic renderer failed on `{msg}` {}..{}: {er}", r.start, r.end)));
                }
                h = h.wrapping_mul(31).wrapping_add(fw::hash_str(&msg)).wrapping_add(r.start as u64);
            }
        }
    }
    Ok(h ^ n as u64)
}

fn tokenize_seed(s: &str) -> Vec<String> {
    // split into number / word / symbol tokens (blanks dropped)
    let cs: Vec<char> = s.chars().collect();
    let mut out = Vec::new();
    let mut i = 0;
    while i < cs.len() {
        let c = cs[i];
        if c.is_whitespace() {
            i += 1;
        } else if c.is_ascii_digit() || (c == '.' && i + 1 < cs.len() && cs[i + 1].is_ascii_digit()) {
            let st = i;
            while i < cs.len() && (cs[i].is_ascii_digit() || cs[i] == '.' || ((cs[i] == 'e' || cs[i] == 'E') && i + 1 < cs.len() && (cs[i + 1].is_ascii_digit() || cs[i + 1] == '-' || cs[i + 1] == '+')) || ((cs[i] == '-' || cs[i] == '+') && i > st && (cs[i - 1] == 'e' || cs[i - 1] == 'E'))) {
                i += 1;
            }
            out.push(cs[st..i].iter().collect());
        } else if c.is_alphanumeric() || c == '°' || c == '\'' {
            let st = i;
            while i < cs.len() && (cs[i].is_alphanumeric() || cs[i] == '°' || cs[i] == '\'') {
                i += 1;
            }
            out.push(cs[st..i].iter().collect());
        } else if c == '*' && i + 1 < cs.len() && cs[i + 1] == '*' {
            out.push("**".into());
            i += 2;
        } else if (c == '-' || c == '+') && i + 1 < cs.len() && cs[i + 1].is_ascii_digit() && out.last().map(|l: &String| !l.chars().last().unwrap().is_alphanumeric() && l != ")").unwrap_or(true) {
            // signed number, exponent included (`+21e3` is one literal for the subject's lexer)
            let st = i;
            i += 1;
            let body = i;
            while i < cs.len() && (cs[i].is_ascii_digit() || cs[i] == '.' || ((cs[i] == 'e' || cs[i] == 'E') && i + 1 < cs.len() && (cs[i + 1].is_ascii_digit() || cs[i + 1] == '-' || cs[i + 1] == '+')) || ((cs[i] == '-' || cs[i] == '+') && i > body && (cs[i - 1] == 'e' || cs[i - 1] == 'E'))) {
                i += 1;
            }
            out.push(cs[st..i].iter().collect());
        } else {
            out.push(c.to_string());
            i += 1;
        }
    }
    out
}

fn emit_tokens(fam: &'static str, toks: &[String], sink: &mut dyn FnMut(Case)) {
    sink(Case::with(fam, toks.join(" "), serde_json::json!(toks)));
}

impl Prop for C11 {
    fn id(&self) -> &'static str {
        "C11"
    }
    fn profiles(&self, _tier: Tier) -> Vec<&'static str> {
        vec!["release", "verif-debug"]
    }
    fn cross_process_determinism(&self) -> bool {
        false
    }
    fn rule(&self) -> String {
        "token soups: all sequences of <=3 (thorough 4) tokens over a 44-token alphabet (numbers incl. 1e999/1e-999, signed, `1.`/`.5`; unit, keyword, function and fact words; every operator and bracket) x all joiner patterns {blank, nothing}; unicode: all strings of <=4 (thorough 5) symbols over 30 code points of 1-4 bytes (ASCII classes, four blank kinds, °, é, Ω, €, emoji, combining mark, NUL); edit neighbourhoods: every single-token deletion, replacement and insertion (44-token alphabet) on 60 seeds of 3-40 tokens (README examples, every operator/feature), thorough: every 2-edit over a 12-token structural sub-alphabet on the seeds up to 12 tokens. long inputs: every sequence of 1..2 tokens over a 14-token structural alphabet (glued and blank-separated) repeated k times and nested k deep inside ten wrappers for k in {8,20,31,32,33,34,40,64,100,257}. Both build profiles (release; debug-assertions + overflow-checks). Every result must be displayable or an error with a non-empty message and an in-bounds char-boundary range the codespan renderer accepts; no panic, abort or hang (20 s). A 1/97 stride of the cases is also run through the real `any` binary. Non-trivial = the input produced at least one result; distinct = distinct input strings".into()
    }
    fn assumptions(&self) -> Vec<String> {
        vec![
            "inputs with a >2-digit number after a power operator are outside the statement's bounds; inputs whose value may exceed 30k bits are counted and skipped (num's gcd(x,1) makes them take minutes, not forever)".into(),
            "inputs that are both long and >=3 edits away from every seed are visited only where they are periodic (the repetition/nesting ladder)".into(),
        ]
    }
    fn case_budget_s(&self) -> u64 {
        20
    }
    fn generate(&self, tier: Tier, sink: &mut dyn FnMut(Case)) {
        // (0) "so the diagnostic renderer can always underline it": single-error queries under
        // leading and trailing blanks through the real binary; what it underlines must be the text
        // the library's range selects
        for q in ["1 m + 1 s", "1 / 0", "1 °", "20 °c to °F", "round(1, 2, 3)", "1 m to s", "2 ^ 0.5", "nosuchfn(1)", "1 +", "(1 / 0)", "3 kmfrobs", "1 °C^2 to K^2", "5 - (1 m + 1 s)", "1 m + 1 °"] {
            for lead in ["", " ", "  ", "   "] {
                for trail in ["", " "] {
                    sink(Case::new("cli-underline", format!("{lead}{q}{trail}")));
                }
            }
        }
        // (0b) a two-byte character across every likely buffer boundary: a fact phrase (plain words, then
        // `°c`) whose `°` starts 3..0 bytes before and 1 byte after byte offsets 16 .. 8192, alone,
        // as an operand and as the left side of a cast; and the same as one long unit word
        for b in [16usize, 32, 64, 100, 128, 200, 255, 256, 512, 1000, 1024, 2048, 4096, 8192] {
            for t in [b - 3, b - 2, b - 1, b, b + 1] {
                let mut s = String::from("mass");
                while s.len() + 4 + 2 <= t {
                    s.push_str(" abc");
                }
                let r = t - s.len();
                if r >= 2 {
                    s.push(' ');
                    s.push_str(&"a".repeat(r - 1));
                } else if r == 1 {
                    s.push('s');
                }
                debug_assert_eq!(s.len(), t);
                s.push_str("°c");
                sink(Case::new("straddle", s.clone()));
                sink(Case::new("straddle", format!("1 + {s}")));
                sink(Case::new("straddle", format!("{s} to m")));
                sink(Case::new("straddle", format!("1 {}°c", "k".repeat(t.saturating_sub(2)))));
            }
        }
        // (0c) power towers: two-digit literals only, but the power of the *unit* they build runs
        // through every digit count up to the machine-word limit and beyond it. The value stays 1
        // (or 1/1), so nothing grows except the unit's power.
        {
            const P: [&str; 7] = ["3", "10", "22", "47", "99", "-10", "-99"];
            let bases: &[&str] = tier.pick(&["1 m", "1 / 1 s"][..], &["1 m", "1 / 1 s", "1 km^2", "1 N*m^-3"][..]);
            for base in bases {
                let mut idx: Vec<usize> = vec![0];
                loop {
                    let mut q = format!("({base})");
                    for i in &idx {
                        q = format!("({q} ^ {})", P[*i]);
                    }
                    sink(Case::new("power-tower", q));
                    let mut i = idx.len();
                    let mut carry = true;
                    while i > 0 && carry {
                        i -= 1;
                        idx[i] += 1;
                        if idx[i] < P.len() {
                            carry = false;
                        } else {
                            idx[i] = 0;
                        }
                    }
                    if carry {
                        if idx.len() == tier.pick(5, 6) {
                            break;
                        }
                        idx.push(0);
                        for x in idx.iter_mut() {
                            *x = 0;
                        }
                    }
                }
            }
        }
        // (0d) every function over a ladder of argument magnitudes on both sides of what a machine
        // float can hold (1e-324 .. 1.8e308), with and without a unit, followed by a second result
        for f in ["sin", "cos", "round", "floor", "ceil"] {
            for a in [
                "0", "1e-999", "1e-400", "1e-324", "1e-323", "1e-308", "2.2250738585072014e-308", "1e308", "1.7976931348623157e308", "1.7976931348623159e308", "1.8e308", "1e309", "-1e309", "-17e308", "1e400", "1e999", "-1e999", "1e999 * 1e999",
                "1e999 / 1e-999", "1e309 m", "-1e309 kg", "1e999 °C",
            ] {
                sink(Case::new("fn-magnitudes", format!("{f}({a})")));
                sink(Case::new("fn-magnitudes", format!("{f}({a}) 1 + 2")));
                sink(Case::new("fn-magnitudes", format!("1 + {f}({a}) * 2")));
                if f == "round" {
                    sink(Case::new("fn-magnitudes", format!("round({a}, 2)")));
                    sink(Case::new("fn-magnitudes", format!("round({a}, -2)")));
                    sink(Case::new("fn-magnitudes", format!("round(1.5, {a})")));
                }
            }
        }
        // (a) token soups
        let nmax = tier.pick(3, 4);
        for n in 1..=nmax {
            let mut idx = vec![0usize; n];
            loop {
                for j in 0..(1usize << (n - 1)) {
                    let mut s = String::new();
                    for (k, i) in idx.iter().enumerate() {
                        if k > 0 && (j >> (k - 1)) & 1 == 0 {
                            s.push(' ');
                        }
                        s.push_str(TOKENS[*i]);
                    }
                    let toks: Vec<&str> = idx.iter().map(|i| TOKENS[*i]).collect();
                    sink(Case::with("soup", s, serde_json::json!(toks)));
                }
                let mut i = n;
                let mut done = true;
                while i > 0 {
                    i -= 1;
                    idx[i] += 1;
                    if idx[i] < TOKENS.len() {
                        done = false;
                        break;
                    }
                    idx[i] = 0;
                }
                if done {
                    break;
                }
            }
        }
        // (b) unicode strings: 2-symbol prefixes, bulk
        sink(Case::new("unicode", ""));
        for a in 0..UNI.len() {
            sink(Case::new("unicode", format!("{a}")));
            for b in 0..UNI.len() {
                sink(Case::new("unicode", format!("{a},{b}")));
                // thorough goes one symbol deeper: keep each bulk case short (the per-case
                // watchdog must stay tight enough to attribute a real hang to an input)
                if tier == Tier::Thorough {
                    for c in 0..UNI.len() {
                        sink(Case::new("unicode", format!("{a},{b},{c}")));
                    }
                }
            }
        }
        // (d) long inputs: short token sequences repeated and nested along a size ladder
        const LAD: [&str; 14] = ["1", "m", "km", "(", ")", "+", "-", "*", "/", "^", "to", ",", "round(", "1.5"];
        let mut units: Vec<String> = LAD.iter().map(|s| s.to_string()).collect();
        for a in LAD {
            for b in LAD {
                units.push(format!("{a}{b}"));
                units.push(format!("{a} {b}"));
            }
        }
        for u in &units {
            for k in crate::props::c12::LADDER {
                let mut inputs = vec![u.repeat(k), format!("{u} ").repeat(k)];
                for (pre, post) in crate::props::c12::WRAPS {
                    inputs.push(format!("{}{u}{}", pre.repeat(k), post.repeat(k)));
                }
                for s in inputs {
                    let toks = tokenize_seed(&s);
                    sink(Case::with("ladder", s, serde_json::json!(toks)));
                }
            }
        }
        // (c) edit neighbourhoods
        for seed in SEEDS {
            let toks = tokenize_seed(seed);
            sink(Case::with("seed", seed.to_string(), serde_json::json!(toks)));
            emit_tokens("seed-retokenized", &toks, sink);
            for i in 0..toks.len() {
                let mut t = toks.clone();
                t.remove(i);
                emit_tokens("edit1-delete", &t, sink);
                for a in TOKENS {
                    let mut t = toks.clone();
                    t[i] = a.to_string();
                    emit_tokens("edit1-replace", &t, sink);
                }
            }
            for i in 0..=toks.len() {
                for a in TOKENS {
                    let mut t = toks.clone();
                    t.insert(i, a.to_string());
                    emit_tokens("edit1-insert", &t, sink);
                }
            }
            // tight rendering of the seed and its deletions
            sink(Case::with("tight", toks.join(""), serde_json::json!(toks)));
            if tier == Tier::Thorough && toks.len() <= 12 {
                // 2-edits over the structural sub-alphabet: replace/insert at two positions
                for i in 0..toks.len() {
                    for a in STRUCT_TOKENS {
                        for j in i..=toks.len() {
                            for b in STRUCT_TOKENS {
                                let mut t = toks.clone();
                                t[i] = a.to_string();
                                t.insert(j, b.to_string());
                                emit_tokens("edit2", &t, sink);
                            }
                        }
                    }
                }
            }
        }
    }
    fn check(&self, env: &mut Env, case: &Case) -> Verdict {
        if case.fam == "unicode" {
            let idx: Vec<usize> = if case.key.is_empty() { vec![] } else { case.key.split(',').map(|s| s.parse().unwrap()).collect() };
            let bulk_from = env.tier.pick(2, 3);
            let total = if idx.len() < bulk_from { idx.len() } else { env.tier.pick(4, 5) };
            let mut buf: String = idx.iter().map(|i| UNI[*i]).collect();
            let mut evals = 0u64;
            let mut nontrivial = 0u64;
            let mut obs = 0u64;
            let mut first: Option<(String, String)> = None;
            fn rec(env: &mut Env, buf: &mut String, depth: usize, total: usize, evals: &mut u64, nontrivial: &mut u64, obs: &mut u64, first: &mut Option<(String, String)>) {
                *evals += 1;
                // the same domain as everywhere in this check: a power of more than two digits
                // (`m^999`: a one-letter fact phrase raised to the 999th) is outside the statement
                let outside = {
                    let toks = tokenize_seed(buf);
                    let t: Vec<&str> = toks.iter().map(|x| x.as_str()).collect();
                    in_domain(&t).is_err()
                };
                let r = if outside {
                    Ok(Ok(0))
                } else {
                    let db = env.db();
                    let b: &str = buf;
                    std::panic::catch_unwind(std::panic::AssertUnwindSafe(|| robust(db, b)))
                };
                match r {
                    Ok(Ok(h)) => {
                        if h & 0xff != 0 {
                            *nontrivial += 1;
                        }
                        *obs = obs.wrapping_mul(1099511628211).wrapping_add(h);
                    }
                    Ok(Err(Bad::Class(c, why))) => {
                        if first.is_none() {
                            *first = Some((c.to_string(), format!("input {:?}: {why}", buf)));
                        }
                    }
                    Err(p) => {
                        if first.is_none() {
                            let msg = p.downcast_ref::<String>().cloned().or_else(|| p.downcast_ref::<&str>().map(|s| s.to_string())).unwrap_or_default();
                            *first = Some((format!("panic:{}", msg.chars().take(90).collect::<String>()), format!("input {:?}: panicked: {msg}", buf)));
                        }
                    }
                }
                if depth < total {
                    for sym in UNI {
                        let len = buf.len();
                        buf.push_str(sym);
                        rec(env, buf, depth + 1, total, evals, nontrivial, obs, first);
                        buf.truncate(len);
                    }
                }
            }
            rec(env, &mut buf, idx.len(), total, &mut evals, &mut nontrivial, &mut obs, &mut first);
            env.bulk_evals += evals - 1;
            env.bulk_nontrivial += nontrivial.saturating_sub(1);
            return match first {
                None => fw::pass(nontrivial > 0, obs),
                Some((sig, why)) => fw::fail(sig, why),
            };
        }
        let s = &case.key;
        {
            // judge the domain on the string as it will be lexed (joined
            // tokens can fuse: `1e999` `0` -> `1e9990`)
            let toks = tokenize_seed(s);
            let t: Vec<&str> = toks.iter().map(|x| x.as_str()).collect();
            for tok in &t {
                if let Some(i) = tok.find(|c| c == 'e' || c == 'E') {
                    if tok[..i].chars().all(|c| c.is_ascii_digit() || c == '.' || c == '-' || c == '+') && !tok[..i].is_empty() {
                        let digits: String = tok[i + 1..].chars().filter(|c| c.is_ascii_digit()).collect();
                        if digits.trim_start_matches('0').len() > 3 {
                            return Verdict::DontCare("number with an exponent of more than 3 digits");
                        }
                    }
                }
            }
            // (the towers of family "power-tower" raise the value one, which does not grow)
            if case.fam != "power-tower" {
                if let Err(r) = in_domain(&t) {
                    return Verdict::DontCare(r);
                }
            }
        }
        let h = match robust(env.db(), s) {
            Ok(h) => h,
            Err(Bad::Class(c, why)) => return fw::fail(c, format!("input {s:?}: {why}")),
        };
        // a stride of the cases goes through the real binary as well
        if (fw::hash_str(s) % 97 == 0 || case.fam == "cli-underline") && env.profile == "release" {
            let bin = crate::props::c19::any_bin();
            if bin.exists() {
                if let Ok(out) = std::process::Command::new(&bin).arg("--").arg(s.replace('\0', "")).env_remove("RUST_LOG").env("NO_COLOR", "1").output() {
                    use std::os::unix::process::ExitStatusExt;
                    let stderr = String::from_utf8_lossy(&out.stderr);
                    if out.status.signal().is_some() || out.status.code() == Some(101) || stderr.contains("panicked at") {
                        return fw::fail("binary-crash", format!("`any -- {s:?}` died: {:?} {}", out.status, stderr.lines().take(3).collect::<Vec<_>>().join(" | ")));
                    }
                    env.bulk_evals += 1;
                    // what the binary underlines is the text the library's range selects (judged for
                    // one-line queries of single-width characters with exactly one error, when the
                    // rendering has a caret line at all)
                    let plain = s.chars().all(|c| (c.is_ascii() && !c.is_ascii_control()) || c == '°');
                    if plain {
                        if let Some(rs) = obs::eval(env.db(), s) {
                            let errs: Vec<(usize, usize)> = rs.iter().filter_map(|r| if let Res::Err { start, end, .. } = r { Some((*start, *end)) } else { None }).collect();
                            if errs.len() == 1 && errs[0].0 < errs[0].1 && s.is_char_boundary(errs[0].0) && s.is_char_boundary(errs[0].1) {
                                let want = &s[errs[0].0..errs[0].1];
                                let text = format!("{}\n{}", crate::props::c19::strip_ansi(&String::from_utf8_lossy(&out.stdout)), crate::props::c19::strip_ansi(&stderr));
                                if let Some((src, col, n)) = caret_underline(&text) {
                                    let got: String = src.chars().skip(col).take(n).collect();
                                    if got != want {
                                        return fw::fail("binary-underline", format!("`any -- {s:?}` underlines {got:?} (column {col}, {n} carets under {src:?}); the error's range {}..{} selects {want:?}", errs[0].0, errs[0].1));
                                    }
                                }
                            }
                        }
                    }
                }
            }
        }
        fw::pass(h & 0xff != 0, h)
    }
    fn bounds(&self, tier: Tier) -> serde_json::Value {
        serde_json::json!({"token_sequence_length": tier.pick(3, 4), "token_alphabet": TOKENS.len(), "unicode_length": tier.pick(4, 5), "unicode_alphabet": UNI.len(), "seeds": SEEDS.len(), "edit_distance": tier.pick(1, 2), "power_tower_depth": tier.pick(5, 6),"profiles": ["release", "verif-debug"]})
    }
}
