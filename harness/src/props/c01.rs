//! C01 — numeric expressions evaluate to the exact rational value.

use crate::exprcheck;
use crate::fw::{Case, Env, Prop, Tier, Verdict};
use crate::refcalc::{bin, num, paren, ref_eval, Expr, Op, RefVal};
use num::{Signed, ToPrimitive};

pub struct C01;

const SMALL: [&str; 22] = ["0", "1", "2", "3", "7", "10", "-3", "-0.5", "0.5", ".25", "1.5e1", "2e-1", "1e2", "50%", "12.5%", "1.25e1", "12.345e2", "-2.5e-1%", "50", "12.5", "10%", "-2.5e-1"];

fn big_ladder() -> Vec<String> {
    vec![
        "1234567890123456789012345678901234567891".to_string(),
        "0.123456789012345678901234567891".to_string(),
        "1e40".to_string(),
        "1e-40".to_string(),
        format!("{}7", "9".repeat(299)),
    ]
}

/// All binary tree shapes with `n` leaves; leaves are numbered left to right.
#[derive(Clone, Debug)]
pub enum Shape {
    Leaf,
    Node(Box<Shape>, Box<Shape>),
}

pub fn shapes(n: usize) -> Vec<Shape> {
    if n == 1 {
        return vec![Shape::Leaf];
    }
    let mut out = Vec::new();
    for l in 1..n {
        for a in shapes(l) {
            for b in shapes(n - l) {
                out.push(Shape::Node(Box::new(a.clone()), Box::new(b.clone())));
            }
        }
    }
    out
}

/// Build a fully parenthesised expression from a shape.
pub fn build(shape: &Shape, lits: &[&str], ops: &[Op], li: &mut usize, oi: &mut usize, top: bool) -> Expr {
    match shape {
        Shape::Leaf => {
            let e = num(lits[*li]);
            *li += 1;
            e
        }
        Shape::Node(a, b) => {
            // operators are numbered in in-order position
            let l = build(a, lits, ops, li, oi, false);
            let op = ops[*oi];
            *oi += 1;
            let r = build(b, lits, ops, li, oi, false);
            let e = bin(l, op, r);
            if top {
                e
            } else {
                paren(e)
            }
        }
    }
}

/// Exponent operands are confined to small integers (|n| <= 6): the statement
/// covers integer exponents and larger ones only produce astronomically large
/// values.
fn exponents_ok(e: &Expr) -> bool {
    match e {
        Expr::Bin(a, op, b) => {
            if *op == Op::Pow {
                match ref_eval(b) {
                    RefVal::Defined { si, .. } => {
                        if !si.value.is_integer() || si.value.numer().abs().to_i64().map(|n| n > 6).unwrap_or(true) {
                            return false;
                        }
                    }
                    _ => {}
                }
            }
            exponents_ok(a) && exponents_ok(b)
        }
        Expr::Paren(a) => exponents_ok(a),
        _ => true,
    }
}

fn for_each_tuple(n: usize, k: usize, f: &mut dyn FnMut(&[usize])) {
    let mut idx = vec![0usize; n];
    loop {
        f(&idx);
        let mut i = n;
        loop {
            if i == 0 {
                return;
            }
            i -= 1;
            idx[i] += 1;
            if idx[i] < k {
                break;
            }
            idx[i] = 0;
            if i == 0 {
                return;
            }
        }
    }
}

fn gen_trees(fam: &'static str, n: usize, lits: &[String], sink: &mut dyn FnMut(Case)) {
    let shapes = shapes(n);
    for sh in &shapes {
        for_each_tuple(n, lits.len(), &mut |li| {
            let ls: Vec<&str> = li.iter().map(|i| lits[*i].as_str()).collect();
            for_each_tuple(n - 1, 5, &mut |oi| {
                let ops: Vec<Op> = oi.iter().map(|i| Op::ALL[*i]).collect();
                let e = build(sh, &ls, &ops, &mut 0, &mut 0, true);
                if exponents_ok(&e) {
                    sink(Case::new(fam, e.render()));
                }
            });
        });
    }
}

/// Parse back the canonical fully parenthesised rendering into the tree (the
/// generator's own format; never used on subject output).
pub fn parse_canonical(s: &str) -> Expr {
    fn expr(t: &[&str], i: &mut usize) -> Expr {
        let mut lhs = atom(t, i);
        while *i < t.len() && t[*i] != ")" {
            let op = match t[*i] {
                "+" => Op::Add,
                "-" => Op::Sub,
                "*" => Op::Mul,
                "/" => Op::Div,
                "^" => Op::Pow,
                other => panic!("bad op {other}"),
            };
            *i += 1;
            let rhs = atom(t, i);
            lhs = bin(lhs, op, rhs);
        }
        lhs
    }
    fn atom(t: &[&str], i: &mut usize) -> Expr {
        if t[*i] == "(" {
            *i += 1;
            let e = expr(t, i);
            assert_eq!(t[*i], ")");
            *i += 1;
            paren(e)
        } else {
            let e = num(t[*i]);
            *i += 1;
            e
        }
    }
    let spaced = s.replace('(', "( ").replace(')', " )");
    let toks: Vec<&str> = spaced.split_whitespace().collect();
    let mut i = 0;
    let e = expr(&toks, &mut i);
    assert_eq!(i, toks.len());
    e
}

impl Prop for C01 {
    fn id(&self) -> &'static str {
        "C01"
    }
    fn rule(&self) -> String {
        "every fully parenthesised expression tree over the literal ladder (22 small literals incl. each percent literal's plain twin (`50%` and `50`, `10%` and `10`),  negative, fractional, exponent (also with an exponent smaller than the number of decimals) and percent forms; 5 big ones: 40/300-digit integers, 30-digit fraction, 1e40, 1e-40) x {+ - * / ^}: all pairs over the full ladder, all 3-leaf trees over 19 literals, all 4-leaf trees over 6 literals (thorough: 5-leaf over 4 literals); exponent operands limited to integers |n|<=6; every operator sequence of length 1..4 (thorough 5) written without parentheses under three literal assignments, against the tree the documented precedence table prescribes. Non-trivial = the reference evaluator defines a value or prescribes an error AND the tree contains >=1 operator; distinct = distinct rendered strings".into()
    }
    fn assumptions(&self) -> Vec<String> {
        vec![
            "num::BigRational/BigInt arithmetic is exact (oracle base)".into(),
            "sizes between the ladder's rungs behave like the rungs (BigInt loops are size-uniform)".into(),
            "blank layout is C06's subject; implicit precedence is enumerated here in one layout only (single blanks, three literal assignments); every other layout by C06".into(),
        ]
    }
    fn generate(&self, tier: Tier, sink: &mut dyn FnMut(Case)) {
        let mut all: Vec<String> = SMALL.iter().map(|s| s.to_string()).collect();
        all.extend(big_ladder());
        // single literals
        for l in &all {
            sink(Case::new("literal", l.clone()));
        }
        gen_trees("pairs", 2, &all, sink);
        // 3-leaf trees: the first 15 small literals, one whose exponent is smaller than its number
        // of decimals, and one big rung
        let l17: Vec<String> = all.iter().take(15).cloned().chain(["1.25e1".to_string(), "1e40".to_string(), "50".to_string(), "10%".to_string()]).collect();
        gen_trees("trees3", 3, &l17, sink);
        // integer powers beyond the tree families' |n| <= 6 (binary powers
        // and their neighbours, both signs), on bases of every literal kind
        for b in ["0", "1", "-1", "2", "-3", "10", "0.5", "-0.5", ".25", "1.5e1", "2e-1", "50%", "12.5%", "1e40", "1e-40", "1234567890123456789012345678901234567891"] {
            for n in [-999i64, -256, -255, -100, -65, -64, -63, -33, -32, -31, -17, -16, -15, -9, -8, -7, 7, 8, 9, 15, 16, 17, 31, 32, 33, 63, 64, 65, 100, 255, 256, 999] {
                // keep exact results below ~30k bits: num's gcd(x, 1) is
                // quadratic in the size of x (minutes beyond that, not a verdict)
                let v = crate::refcalc::ref_decimal(b).unwrap();
                if (v.numer().bits() + v.denom().bits()) * n.unsigned_abs() > 30_000 {
                    continue;
                }
                sink(Case::new("powers", format!("{b} ^ {n}")));
                sink(Case::new("powers", format!("({b} ^ {n}) * {b}")));
            }
        }
        // integer exponents that are not *written* as integers (a point, an exponent, a percent
        // sign): whether an exponent is an integer is a question about its value
        for b in ["0", "1", "-1", "2", "-3", "10", "0.5", "-0.5", ".25", "1.5e1", "50%"] {
            for n in ["2.0", "3.", "20e-1", "0.2e1", "0.03e2", "200%", "-1.0", "-2.00", "1e1", "0.0", "-0e0", "4.000"] {
                sink(Case::new("powers", format!("{b} ^ {n}")));
                sink(Case::new("powers", format!("({b} ^ {n}) * {b}")));
            }
        }
        let l6: Vec<String> = ["0", "2", "-3", "0.5", "1e2", "50%"].iter().map(|s| s.to_string()).collect();
        gen_trees("trees4", 4, &l6, sink);
        // "every operator mix and nesting depth" also without parentheses: every operator sequence
        // of length 1..4 (thorough 5) written flat, under three literal assignments; the value is
        // that of the tree the documented precedence table prescribes
        for lits in [["10", "2", "3", "2", "4", "5"], ["7", "3", "2", "2", "1", "2"], ["1", "50%", "-2", "2", "-3", "0.5"]] {
            for k in 1..=tier.pick(4usize, 5usize) {
                crate::props::c06::for_each_ops(k, &mut |ops| {
                    let leaves: Vec<Expr> = lits.iter().take(k + 1).map(|l| num(l)).collect();
                    let e = crate::props::c06::table_tree(&leaves, ops);
                    if exponents_ok(&e) {
                        sink(Case::with("flat", e.render(), crate::refcalc::to_json(&e)));
                    }
                });
            }
        }
        if tier == Tier::Thorough {
            let l4: Vec<String> = ["0", "2", "-0.5", "3"].iter().map(|s| s.to_string()).collect();
            gen_trees("trees5", 5, &l4, sink);
            let l9: Vec<String> = ["0", "1", "2", "-3", "0.5", ".25", "1e2", "50%", "7"].iter().map(|s| s.to_string()).collect();
            gen_trees("trees4w", 4, &l9, sink);
        }
    }
    fn check(&self, env: &mut Env, case: &Case) -> Verdict {
        let e = if case.fam == "flat" { crate::refcalc::from_json(&case.data) } else { parse_canonical(&case.key) };
        let nontrivial = e.leaves() >= 2;
        exprcheck::verdict(env.db(), &e, nontrivial)
    }
    fn bounds(&self, tier: Tier) -> serde_json::Value {
        serde_json::json!({
            "leaves_max": tier.pick(4, 5),
            "literal_ladder": SMALL.len() + 5,
            "operators": ["+", "-", "*", "/", "^"],
            "exponent_magnitude_max": 6,
        })
    }
}
