//! C07 — decimal literals are read exactly.

use crate::fw::{self, Case, Env, Prop, Tier, Verdict};
use crate::obs::{self, Res};
use crate::refcalc::ref_decimal;

pub struct C07;

fn digit_strings(digits: &[char], len: usize, out: &mut Vec<String>) {
    // all strings of exactly `len` over `digits`
    let mut idx = vec![0usize; len];
    if len == 0 {
        out.push(String::new());
        return;
    }
    loop {
        out.push(idx.iter().map(|i| digits[*i]).collect());
        let mut i = len;
        loop {
            if i == 0 {
                return;
            }
            i -= 1;
            idx[i] += 1;
            if idx[i] < digits.len() {
                break;
            }
            idx[i] = 0;
            if i == 0 {
                return;
            }
        }
    }
}

/// Enumerate every literal of the grammar
/// `sign? (d+ ('.' d*)? | '.' d+) ([eE] sign? d+)? '%'?` with total length
/// <= max over the given digit alphabet.
fn enumerate(digits: &[char], max: usize, fam: &'static str, sink: &mut dyn FnMut(Case)) {
    // pre-compute digit strings by length
    let mut by_len: Vec<Vec<String>> = Vec::new();
    for l in 0..=max {
        let mut v = Vec::new();
        digit_strings(digits, l, &mut v);
        by_len.push(v);
    }
    for sign in ["", "+", "-"] {
        for pct in ["", "%"] {
            for exp_marker in ["", "e", "E"] {
                for esign in ["", "+", "-"] {
                    if exp_marker.is_empty() && !esign.is_empty() {
                        continue;
                    }
                    let fixed = sign.len() + pct.len() + exp_marker.len() + esign.len();
                    if fixed >= max + 1 {
                        continue;
                    }
                    let budget = max - fixed;
                    // int len i, point (0/1), frac len f, exponent digits x
                    for i in 0..=budget {
                        for point in [false, true] {
                            for f in 0..=budget {
                                if !point && f > 0 {
                                    continue;
                                }
                                if i == 0 && !(point && f > 0) {
                                    continue;
                                }
                                let used = i + f + point as usize;
                                if used > budget {
                                    continue;
                                }
                                let xmin = if exp_marker.is_empty() { 0 } else { 1 };
                                let xmax = if exp_marker.is_empty() { 0 } else { budget - used };
                                if xmax < xmin {
                                    continue;
                                }
                                for x in xmin..=xmax {
                                    for a in &by_len[i] {
                                        for b in &by_len[f] {
                                            for c in &by_len[x] {
                                                let s = format!("{sign}{a}{}{b}{exp_marker}{esign}{c}{pct}", if point { "." } else { "" });
                                                sink(Case::new(fam, s));
                                            }
                                        }
                                    }
                                }
                            }
                        }
                    }
                }
            }
        }
    }
}

fn ladder(sink: &mut dyn FnMut(Case)) {
    let pats: [fn(usize) -> String; 4] = [
        |n| "9".repeat(n),
        |n| format!("1{}", "0".repeat(n - 1)),
        |n| format!("{}1", "0".repeat(n - 1)),
        |n| (0..n).map(|i| if i % 2 == 0 { '7' } else { '3' }).collect(),
    ];
    for len in [20usize, 40, 100, 300] {
        for pat in pats {
            let d = pat(len);
            let points: Vec<Option<usize>> = vec![None, Some(0), Some(1), Some(len / 2), Some(len)];
            for pt in points {
                let mant = match pt {
                    None => d.clone(),
                    Some(k) => format!("{}.{}", &d[..k], &d[k..]),
                };
                for exp in ["", "e0", "e+5", "e-5", "e40", "e-40", "e007", "E-0", "e999", "e-999"] {
                    for sign in ["", "-", "+"] {
                        for pct in ["", "%"] {
                            sink(Case::new("ladder", format!("{sign}{mant}{exp}{pct}")));
                        }
                    }
                }
            }
        }
    }
}

impl Prop for C07 {
    fn id(&self) -> &'static str {
        "C07"
    }
    fn observes_units(&self) -> bool {
        false
    }
    fn rule(&self) -> String {
        "every string of the literal grammar sign? (d+ ('.' d*)? | '.' d+) ([eE] sign? d+)? '%'? up to length 7 over digits {0,1,9} and length 4 over all ten digits (quick) / length 7 over {0,1,5,9} and length 5 over all ten digits (thorough), enumerated through the grammar; plus a size ladder: mantissas of 20/40/100/300 digits x 4 digit patterns x 5 point positions x 10 exponents x sign x percent. Each literal is read by str::parse::<Rational> (no percent) and as a whole query and compared with an own digit-string reader. Non-trivial = more than one character; distinct = distinct literal strings".into()
    }
    fn assumptions(&self) -> Vec<String> {
        vec![
            "strings outside the literal grammar (`-.`, `1e+`) are not judged".into(),
            "lengths between the ladder rungs behave like the rungs".into(),
        ]
    }
    fn generate(&self, tier: Tier, sink: &mut dyn FnMut(Case)) {
        match tier {
            Tier::Quick => {
                enumerate(&['0', '1', '9'], 7, "grammar<=7/{0,1,9}", sink);
                enumerate(&['0', '1', '2', '3', '4', '5', '6', '7', '8', '9'], 4, "grammar<=4/all-digits", sink);
            }
            Tier::Thorough => {
                // (length 8 over four digits is ~350 M literals and length 6 over ten digits ~2.7 G:
                // neither can be finished; these two are ~60 M and ~160 M)
                enumerate(&['0', '1', '5', '9'], 7, "grammar<=7/{0,1,5,9}", sink);
                enumerate(&['0', '1', '2', '3', '4', '5', '6', '7', '8', '9'], 5, "grammar<=5/all-digits", sink);
            }
        }
        ladder(sink);
        // state carried from one literal to the next: every literal of a small list after every
        // string of a list the literal grammar rejects half-way
        for bad in ["1e5e3", "1e5.3", "1.5e5e3", "12.75e99999999999", "12e", "1.2.3", "1e", "1e+", "1e-", "--1", "1ee5", "3.e", "9e9e9e9", "45.6.7e1", "1e5x", "0x1F", "1_000"] {
            for good in ["7", "2.5", "0.125", "-3", "1e2", ".5", "12345678901234567890"] {
                sink(Case::new("after-rejected", format!("{bad}|{good}")));
            }
        }
    }
    fn check(&self, env: &mut Env, case: &Case) -> Verdict {
        if case.fam == "after-rejected" {
            // a short history in one thread: a string that is not a literal is offered first (to
            // `str::parse`, as a query of its own, and as a group in front of the literal), then the
            // literal; what the literal denotes must not depend on what was rejected before it
            let (bad, good) = case.key.split_once('|').unwrap();
            let want = ref_decimal(good).unwrap();
            let _ = bad.parse::<anything::Rational>();
            match good.parse::<anything::Rational>() {
                Ok(r) if obs::rat_of(&r) == want => {}
                Ok(r) => return fw::fail("after-rejected:parse", format!("after str::parse::<Rational>({bad:?}), str::parse::<Rational>({good:?}) = {}, literal denotes {want}", obs::rat_of(&r))),
                Err(_) => return fw::fail("after-rejected:parse-reject", format!("after str::parse::<Rational>({bad:?}), {good:?} is rejected")),
            }
            let _ = obs::eval(env.db(), bad);
            match obs::eval_one(env.db(), good) {
                Ok(Res::Ok { value, .. }) if value == want => {}
                Ok(r) => return fw::fail("after-rejected:query", format!("after the query {bad:?}, the query {good:?} gave {}, literal denotes {want}", r.short())),
                Err(why) => return fw::fail("after-rejected:query", format!("after the query {bad:?}, the query {good:?}: {why}")),
            }
            // in one query: whatever the first group gives, a last result that is a value must be the literal
            let q = format!("({bad}) ({good})");
            if let Some(rs) = obs::eval(env.db(), &q) {
                if rs.len() >= 2 {
                    if let Some(Res::Ok { value, unit, .. }) = rs.last() {
                        if unit.is_empty() && *value != want {
                            return fw::fail("after-rejected:group", format!("{q}: the last result is {value}, the literal {good} denotes {want}"));
                        }
                    }
                }
            }
            return fw::pass(true, fw::hash_str(&want.to_string()));
        }
        let s = &case.key;
        let want = match ref_decimal(s) {
            Some(v) => v,
            None => return fw::fail(format!("generator:{s}"), "generator produced a string outside the grammar (machinery bug)"),
        };
        // |exponent| > 999: the exact value has thousands of digits and the
        // subject's BigRational normalisation (num's gcd(x, 1)) is quadratic in
        // them; the statement's sibling C11 bounds exponents to 3 digits.
        if let Some(i) = s.find(|c| c == 'e' || c == 'E') {
            let e: String = s[i + 1..].chars().filter(|c| c.is_ascii_digit()).collect();
            if e.trim_start_matches('0').len() > 3 {
                return Verdict::DontCare("exponent magnitude > 999");
            }
        }
        let sig = |what: &str| {
            // class: which features the literal has
            let mut f = String::new();
            if s.starts_with('+') {
                f.push_str("plus,");
            }
            if s.starts_with('-') {
                f.push_str("minus,");
            }
            if s.contains('.') {
                f.push_str("point,");
            }
            if s.contains('e') || s.contains('E') {
                f.push_str("exp,");
            }
            if s.contains('%') {
                f.push_str("pct,");
            }
            if s.len() > 19 {
                f.push_str("long,");
            }
            format!("{what}:{f}")
        };
        if !s.ends_with('%') {
            match s.parse::<anything::Rational>() {
                Ok(r) => {
                    let got = obs::rat_of(&r);
                    if got != want {
                        return fw::fail(sig("parse"), format!("str::parse::<Rational>({s:?}) = {got}, literal denotes {want}"));
                    }
                }
                Err(_) => return fw::fail(sig("parse-reject"), format!("str::parse::<Rational>({s:?}) rejected a well-formed literal")),
            }
        }
        match obs::eval_one(env.db(), s) {
            Ok(Res::Ok { value, unit, .. }) => {
                if !unit.is_empty() {
                    return fw::fail(sig("query-unit"), format!("query {s:?} returned a unit"));
                }
                if value != want {
                    return fw::fail(sig("query"), format!("query {s:?} = {value}, literal denotes {want}"));
                }
                fw::pass(s.len() > 1, fw::hash_str(&want.to_string()))
            }
            Ok(r) => fw::fail(sig("query-error"), format!("query {s:?} gave {}", r.short())),
            Err(why) => fw::fail(sig("query-results"), format!("query {s:?}: {why}")),
        }
    }
    fn bounds(&self, tier: Tier) -> serde_json::Value {
        serde_json::json!({
            "length_max": 7,
            "digit_alphabets": tier.pick("{0,1,9} to 7; all ten to 4", "{0,1,5,9} to 7; all ten to 5"),
            "ladder_mantissa_lengths": [20, 40, 100, 300],
        })
    }
}
