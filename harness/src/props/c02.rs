//! C02 — addition, subtraction and casts are allowed exactly between
//! commensurable units.

use crate::fw::{self, Case, Env, Prop, Tier, Verdict};
use crate::obs::{self, Res};
use crate::tables::{self, Affine};
use crate::units::{self, Meaning};
use num::{BigInt, BigRational};

pub struct C02;

const CORE: [&str; 26] = ["s", "m", "g", "A", "K", "mol", "cd", "B", "N", "J", "W", "Pa", "C", "V", "F", "Wb", "T", "H", "Bq", "l", "ha", "min", "h", "ft", "lb", "ohm"];

const CANCELLING: [&str; 24] = [
    "J/N", "V*A", "C/s", "W*s", "N*m", "Pa*m^3", "Wb/s", "J/C", "kg*m/s^2", "N/Pa", "W/A", "C/V", "V/A", "A/V", "V*s", "Wb/m^2", "Wb/A", "J/kg", "mol/s", "cd/m^2", "m/s", "m/s^2", "1/s", "kg*m^2/s^3",
];

/// Powers, prefixes under powers, three-factor and partly cancelling spellings
/// (areas vs ha/acre, volumes vs l/gal/cc, s^-1 vs Bq, kg*m^2/s^2 vs J, ...).
const POWERED: [&str; 40] = [
    "m^2", "m^3", "km^2", "cm^2", "cm^3", "mm^3", "dm^3", "ft^2", "ft^3", "in^3", "yd^2", "mi^2", "s^-1", "s^-2", "s^2", "m^-1", "m^-2", "m^-3", "g^2", "A^2",
    "K^-1", "kg*m^2/s^2", "N*m/s", "A*s", "m^2/s^2", "W/m^2", "kg/m^3", "g/cm^3", "N/m^2", "J/m^3", "Pa*s", "m*m", "m*m*m", "m^2*m", "m^3/m", "m^3/m^2", "km*m", "ft*in", "N*s^2/kg",
    "J*s/kg/m",
];

/// Spellings over *different* unit names that cancel completely (dimensionless
/// with a scale: m/ft) and three-factor spellings in which a base dimension is
/// contributed, cancelled and contributed again while the units are expanded.
const CANCEL2: [&str; 16] = ["m/ft", "km/mi", "in/yd", "N*m/J", "Pa*m^2/N", "J/N/m", "V*A*s/J", "C*V/J", "Wb*A/J", "N*kg/J", "J*kg/N", "W*s/N", "N*s/kg", "kg*m/N", "N*s^2/m", "J*s/W/h"];

/// One unit name on both sides of the `/` under different powers: what is left is a power of
/// that unit, not nothing (`m/m^2` is m^-1).
const SELF_PARTLY: [&str; 12] = ["m/m^2", "s/s^2", "kg*m/m^2", "m^2/m^3", "s^2/s^3", "m/m^3", "s*m/s^2", "A*s/s^2", "m^2/m", "kg/kg^2", "ft/ft^2", "N*m/m^2"];

/// One unit name cancelling against itself completely, spelled with and without written powers.
/// (Within a unit expression everything after a `/` is in the denominator until the next `/`.)
const SELF_FULLY: [&str; 14] = ["m/m", "m/m^1", "m^1/m", "m^1/m^1", "m*m^-1", "m^-1*m", "m^2/m^2", "m^2/m*m", "s/s^1", "s^-2*s^2", "kg*m/m^1*kg", "N/N^1", "ft^1/ft", "m^3/m^2*m^1"];

/// The spelling set S.
pub fn spellings(tier: Tier) -> Vec<String> {
    let mut s: Vec<String> = Vec::new();
    for u in tables::UNITS {
        if u.affine != Affine::None {
            continue;
        }
        if let Some(n) = u.names.iter().find(|n| tables::typeable(n)) {
            s.push(n.to_string());
            // SI-prefixable: k and m where the word stays unambiguous
            for p in ["k", "m"] {
                let w = format!("{p}{n}");
                if units::readings(&w).len() == 1 && tables::find_by_name(&w).is_none() {
                    s.push(w);
                }
            }
        }
    }
    let core: &[&str] = match tier {
        Tier::Quick => &CORE[..14],
        Tier::Thorough => &CORE[..],
    };
    for a in core {
        for b in core {
            s.push(format!("{a}*{b}"));
            s.push(format!("{a}/{b}"));
        }
    }
    for c in CANCELLING {
        s.push(c.to_string());
    }
    for c in POWERED {
        s.push(c.to_string());
    }
    for c in CANCEL2 {
        s.push(c.to_string());
    }
    for c in SELF_PARTLY {
        s.push(c.to_string());
    }
    if tier == Tier::Thorough {
        // every remaining alias once
        for u in tables::UNITS {
            if u.affine != Affine::None {
                continue;
            }
            for n in u.names.iter().skip(1) {
                if tables::typeable(n) {
                    s.push(n.to_string());
                }
            }
        }
    }
    s.sort();
    s.dedup();
    // keep only spellings the reference can read, which do not cancel
    // syntactically (`m/m`: the statement is silent on whether that is "plain")
    s.retain(|x| match units::unit_expr_flat(x) {
        Some(f) => !units::cancels_to_nothing(&f) && !units::mixed_prefix(&f) && x != "1/s",
        None => false,
    });
    s
}

fn meaning(u: &str) -> Meaning {
    units::unit_expr(u).expect("reference meaning")
}

fn sig(op: &str, a: &str, b: &str, what: &str) -> String {
    // class: operator + whether each side is a single word or a compound + outcome
    let shape = |s: &str| if s.contains('*') || s.contains('/') || s.contains('^') { "compound" } else { "word" };
    format!("{what}:{op}:{}:{}", shape(a), shape(b))
}

impl Prop for C02 {
    fn id(&self) -> &'static str {
        "C02"
    }
    fn rule(&self) -> String {
        "spelling set S = one typeable name of each of the 84 proportional units, their k-/m- prefixed forms where the word has a single reading, all u*v and u/v over a 14-unit (thorough 26-unit) core, 24 hand-listed cancelling spellings, 16 spellings over different unit names that cancel completely or contribute/cancel/re-contribute a base dimension (m/ft, N*m/J, N*kg/J), 40 powered / prefixed-and-powered / three-factor / partly cancelling spellings (m^2 vs ha, cm^3 vs l, s^-1 vs Bq, kg*m^2/s^2 vs J, m^3/m, km*m) (thorough: plus every alias); all ordered pairs (a,b) of S x {`1 a + 1 b`, `3 a - 1 b`, `1 a to b`, `5 a + 0 b`, `0 a - 5 b`} and, over a 48-spelling core, computed zeros `5 a + (3 b - 3 b)`, `(2 a - 2 a) - 4 b`; 12 spellings with one unit on both sides of the `/` under different powers (m/m^2 is m^-1); computed operands: every a*b/c and a/b*c over 10 quantities (ft, in, yd, kWh, h, N, m, J, s, kg) cast to each of 12 targets and added to / subtracted from targets, judged against the reference evaluation of the tree; plus `2 + 1 q`, `1 q + 2`, `5 - 1 q`, `1 q - 5` for every q in S. Oracle: Ok iff the independent table gives both sides the same base dimensions; on Ok the SI value is the exact sum/difference/rescaling and a cast result is expressed in the target's unit; a plain number adopts the quantity's unit in both orders. Non-trivial = both sides have non-empty units; distinct = distinct query strings".into()
    }
    fn assumptions(&self) -> Vec<String> {
        vec![
            "unit dimensions/scales from the independent table".into(),
            "spellings whose unit tokens all cancel syntactically (m/m) are outside the statement".into(),
            "which operand's unit a sum is displayed in is not judged".into(),
        ]
    }
    fn generate(&self, tier: Tier, sink: &mut dyn FnMut(Case)) {
        let s = spellings(tier);
        for a in &s {
            for b in &s {
                sink(Case::with("add", format!("1 {a} + 1 {b}"), serde_json::json!({"a": a, "b": b})));
                sink(Case::with("sub", format!("3 {a} - 1 {b}"), serde_json::json!({"a": a, "b": b})));
                sink(Case::with("to", format!("1 {a} to {b}"), serde_json::json!({"a": a, "b": b})));
                // a zero on either side changes nothing about commensurability
                sink(Case::with("add", format!("5 {a} + 0 {b}"), serde_json::json!({"a": a, "b": b, "ca": 5, "cb": 0})));
                sink(Case::with("sub", format!("0 {a} - 5 {b}"), serde_json::json!({"a": a, "b": b, "ca": 0, "cb": 5})));
            }
        }
        // ... nor does a zero that is computed
        for a in s.iter().take(48) {
            for b in s.iter().take(48) {
                sink(Case::with("add", format!("5 {a} + (3 {b} - 3 {b})"), serde_json::json!({"a": a, "b": b, "ca": 5, "cb": 0})));
                sink(Case::with("sub", format!("(2 {a} - 2 {a}) - 4 {b}"), serde_json::json!({"a": a, "b": b, "ca": 0, "cb": 4})));
            }
        }
        // operands that are computed: a product / quotient of three quantities (whose unit the tool
        // has to reconstruct) cast to, added to or subtracted from a target of the same or of
        // another dimension; judged against the reference evaluation of the tree
        {
            use crate::refcalc::{bin, paren, qty, to, to_json, Op};
            let ops = [("1", "ft"), ("1", "in"), ("1", "yd"), ("2", "kWh"), ("1", "h"), ("3", "N"), ("2", "m"), ("6", "J"), ("0.5", "s"), ("4", "kg")];
            let targets = ["m", "m^2", "s", "J", "W", "N", "kg", "ft", "in^2", "m/s", "kg*m", "ft*in"];
            for (al, au) in ops {
                for (bl, bu) in ops {
                    for (cl, cu) in ops {
                        for (o1, o2) in [(Op::Mul, Op::Div), (Op::Div, Op::Mul)] {
                            let prod = bin(bin(qty(al, au), o1, qty(bl, bu)), o2, qty(cl, cu));
                            for t in targets {
                                let e = to(prod.clone(), t);
                                sink(Case::with("computed", e.render(), to_json(&e)));
                            }
                            // + and - with the first two targets of matching dimension are covered by
                            // running every target through both
                            for t in targets.iter().take(tier.pick(4, 12)) {
                                let e = bin(paren(prod.clone()), Op::Add, qty("1", t));
                                sink(Case::with("computed", e.render(), to_json(&e)));
                                let e = bin(qty("1", t), Op::Sub, paren(prod.clone()));
                                sink(Case::with("computed", e.render(), to_json(&e)));
                            }
                        }
                    }
                }
            }
        }
        // chains of three: every arrangement of plain numbers, quantities in one unit and quantities
        // in an incommensurable unit under + and - (left to right: a plain number adopts the unit it
        // meets, also when it is itself the sum of two plain numbers; a unit once carried must be
        // checked against every later operand)
        for (u, v) in [("m", "s"), ("km", "h"), ("N", "J"), ("s^-1", "m^-1"), ("kJ/kg", "kg")] {
            for shape in 0..27usize {
                for ops in 0..4usize {
                    let kinds = [shape % 3, shape / 3 % 3, shape / 9];
                    let vals = ["1", "2", "3"];
                    let mut q = String::new();
                    for i in 0..3 {
                        if i > 0 {
                            q.push_str(if (ops >> (i - 1)) & 1 == 0 { " + " } else { " - " });
                        }
                        q.push_str(vals[i]);
                        match kinds[i] {
                            1 => q.push_str(&format!(" {u}")),
                            2 => q.push_str(&format!(" {v}")),
                            _ => {}
                        }
                    }
                    sink(Case::with("chain3", q, serde_json::json!({"kinds": kinds, "ops": ops, "u": u, "v": v})));
                }
            }
        }
        // a plain number cast twice: it adopts the first target and is *converted* to the second
        for a in ["m", "km", "cm", "ft", "s", "min", "N", "J", "kJ/kg", "m^2"] {
            for b in ["m", "km", "cm", "ft", "s", "min", "N", "J", "kJ/kg", "m^2"] {
                for lhs in ["5", "2 * 3", "(1 + 1)"] {
                    sink(Case::with("plain-to-to", format!("{lhs} to {a} to {b}"), serde_json::json!({"a": a, "b": b, "x": if lhs == "5" { 5 } else if lhs == "2 * 3" { 6 } else { 2 }})));
                }
            }
        }
        // two spellings in which one unit name cancels against itself completely (with and without
        // written powers, on either side of the `/`): both sides reduce to the same powers of the
        // base dimensions - none -, so `+`, `-` and `to` between them must succeed, whichever
        // spelling stands where. (Whether such a quantity also counts as a *plain number* next to a
        // unit that does not cancel is not said and not judged.)
        let cancels = |x: &str| units::unit_expr_flat(x).map(|f| units::cancels_to_nothing(&f)).unwrap_or(false);
        for a in SELF_FULLY {
            for b in SELF_FULLY {
                assert!(cancels(a) && cancels(b), "machinery: the reference does not read {a} and {b} as cancelling");
                sink(Case::with("self-cancelled", format!("3 {a} + 2 {b}"), serde_json::json!({"want": 5})));
                sink(Case::with("self-cancelled", format!("3 {a} - 2 {b}"), serde_json::json!({"want": 1})));
                sink(Case::with("self-cancelled", format!("3 {a} to {b}"), serde_json::json!({"want": 3})));
            }
        }
        // powers that differ by a multiple of 2^16 (or 2^8) are different powers
        for (a, b) in [("m^70000", "m^4464"), ("m^40000", "m^-25536"), ("s^65537", "s"), ("m^65536*s", "s"), ("m^32768", "m^-32768"), ("kg^300", "kg^44"), ("s^-129", "s^127"), ("m^65536", "m^65536"), ("s^-40000*m", "m*s^-40000"), ("A^70000", "A^70000")] {
            for q in [format!("1 {a} + 2 {b}"), format!("1 {a} - 2 {b}"), format!("1 {a} to {b}"), format!("2 {b} + 1 {a}")] {
                sink(Case::with("wide-power", q, serde_json::json!({"a": a, "b": b})));
            }
        }
        for q in &s {
            sink(Case::with("plain-left", format!("2 + 1 {q}"), serde_json::json!({"q": q})));
            sink(Case::with("plain-right", format!("1 {q} + 2"), serde_json::json!({"q": q})));
            sink(Case::with("plain-left", format!("5 - 1 {q}"), serde_json::json!({"q": q})));
            sink(Case::with("plain-right", format!("1 {q} - 5"), serde_json::json!({"q": q})));
        }
    }
    fn check(&self, env: &mut Env, case: &Case) -> Verdict {
        let q = &case.key;
        if case.fam == "computed" {
            use crate::refcalc::{ref_eval, Expr, RefVal};
            let e = crate::refcalc::from_json(&case.data);
            // the statement does not say whether a *computed* dimensionless quantity (2 m * 3 N / 6 J)
            // counts as a plain number, which adopts any unit: not judged (as in C13/C18, DESIGN 8.3)
            let inner: &Expr = match &e {
                Expr::To(a, _) => a,
                Expr::Bin(a, _, b) => match (&**a, &**b) {
                    (Expr::Paren(p), _) => p,
                    (_, Expr::Paren(p)) => p,
                    _ => &e,
                },
                _ => &e,
            };
            if let RefVal::Defined { si, .. } = ref_eval(inner) {
                if si.dim == tables::DIM0 {
                    return Verdict::DontCare("computed dimensionless operand (plain number or not: the statement is silent)");
                }
            }
            return crate::exprcheck::verdict(env.db(), &e, true);
        }
        let got = match obs::eval_one(env.db(), q) {
            Ok(r) => r,
            Err(why) => return fw::fail(format!("results:{}", case.fam), format!("{q}: {why}")),
        };
        if case.fam == "wide-power" {
            let (a, b) = (case.data["a"].as_str().unwrap(), case.data["b"].as_str().unwrap());
            let (Some(ma), Some(mb)) = (units::unit_expr(a), units::unit_expr(b)) else { return Verdict::DontCare("no reference reading") };
            return match (&got, ma.dim == mb.dim) {
                (Res::Err { .. }, false) => fw::pass(true, 1),
                (Res::Ok { .. }, true) => fw::pass(true, 2),
                (Res::Ok { .. }, false) => fw::fail("wide-power:accepted", format!("{q}: [{a}] and [{b}] are different powers, but the tool returned {}", got.short())),
                (Res::Err { msg, .. }, true) => {
                    // (how large a unit power may be is the tool's choice)
                    if let Ok(Res::Err { .. }) = obs::eval_one(env.db(), &format!("1 {a}")) {
                        return Verdict::DontCare("a unit power the tool refuses on its own");
                    }
                    fw::fail("wide-power:refused", format!("{q}: the same powers on both sides, refused: {msg}"))
                }
            };
        }
        if case.fam == "self-cancelled" {
            let want = BigRational::from_integer(BigInt::from(case.data["want"].as_i64().unwrap()));
            return match &got {
                Res::Err { msg, .. } => fw::fail("self-cancelled:refused", format!("{q}: both sides reduce to no base dimension at all, but the tool refuses: {msg}")),
                Res::Ok { value, unit, .. } => match units::si_of(value, unit, false) {
                    Err(e) => crate::units::table_verdict(format!("{q}: {e}")),
                    Ok(si) if si.value == want && si.dim == tables::DIM0 => fw::pass(true, fw::hash_str(&si.short())),
                    Ok(si) => fw::fail("self-cancelled:value", format!("{q}: expected {want} without dimension, got {} (displayed {})", si.short(), got.short())),
                },
            };
        }
        if case.fam == "plain-to-to" {
            let (a, b) = (case.data["a"].as_str().unwrap(), case.data["b"].as_str().unwrap());
            let (ma, mb) = (meaning(a), meaning(b));
            let x = BigRational::from_integer(BigInt::from(case.data["x"].as_i64().unwrap()));
            return match (&got, ma.dim == mb.dim) {
                (Res::Err { .. }, false) => fw::pass(true, 1),
                (Res::Ok { .. }, false) => fw::fail("plain-to-to:accepted", format!("{q}: [{a}] and [{b}] are incommensurable but the tool returned {}", got.short())),
                (Res::Err { msg, .. }, true) => fw::fail("plain-to-to:refused", format!("{q}: refused: {msg}")),
                (Res::Ok { value, unit, unit_text }, true) => {
                    let si = match units::si_of(value, unit, false) {
                        Ok(si) => si,
                        Err(e) => return crate::units::table_verdict(format!("{q}: {e}")),
                    };
                    let want = &x * &ma.scale;
                    if si.value != want || si.dim != ma.dim {
                        return fw::fail("plain-to-to:value", format!("{q}: the number adopts [{a}] and is then converted: expected SI {want} [{}], got {} (displayed {})", tables::dim_text(&ma.dim), si.short(), got.short()));
                    }
                    if let Ok(Res::Ok { unit: bu, unit_text: bt, .. }) = obs::eval_one(env.db(), &format!("1 {b}")) {
                        if &bu != unit {
                            return fw::fail("plain-to-to:not-in-target-unit", format!("{q}: result is in [{unit_text}], target reads as [{bt}]"));
                        }
                    }
                    fw::pass(true, fw::hash_str(&si.short()))
                }
            };
        }
        if case.fam == "chain3" {
            // left to right; state = (value, unit carried so far: 0 none, 1 = u, 2 = v)
            let kinds: Vec<u64> = case.data["kinds"].as_array().unwrap().iter().map(|k| k.as_u64().unwrap()).collect();
            let ops = case.data["ops"].as_u64().unwrap();
            let int = |n: i64| BigRational::from_integer(BigInt::from(n));
            let mut val = int(1);
            let mut unit = kinds[0];
            let mut error = false;
            for i in 1..3 {
                let x = int(i as i64 + 1);
                val = if (ops >> (i - 1)) & 1 == 0 { val + x } else { val - x };
                match (unit, kinds[i]) {
                    (0, k) => unit = k,
                    (_, 0) => {}
                    (a, b) if a == b => {}
                    _ => {
                        error = true;
                        break;
                    }
                }
            }
            let class = format!("chain3:{}{}{}", kinds[0], kinds[1], kinds[2]);
            return match (&got, error) {
                (Res::Err { .. }, true) => fw::pass(true, 1),
                (Res::Ok { .. }, true) => fw::fail(format!("{class}:accepted"), format!("{q}: an operand is incommensurable with the unit the chain carries, but the tool returned {}", got.short())),
                (Res::Err { msg, .. }, false) => fw::fail(format!("{class}:refused"), format!("{q}: every operand is a plain number or in one unit, but the tool refused: {msg}")),
                (Res::Ok { value, unit: gu, .. }, false) => {
                    let want_unit = match unit {
                        0 => None,
                        1 => Some(meaning(case.data["u"].as_str().unwrap())),
                        _ => Some(meaning(case.data["v"].as_str().unwrap())),
                    };
                    let si = match units::si_of(value, gu, false) {
                        Ok(si) => si,
                        Err(e) => return crate::units::table_verdict(format!("{q}: {e}")),
                    };
                    let (ws, wd) = match &want_unit {
                        None => (val.clone(), tables::DIM0),
                        Some(m) => (&val * &m.scale, m.dim.clone()),
                    };
                    if si.value == ws && si.dim == wd && (want_unit.is_some() || gu.is_empty()) {
                        fw::pass(true, fw::hash_str(&si.short()))
                    } else {
                        fw::fail(format!("{class}:value"), format!("{q}: expected SI {} [{}], got {} (displayed {})", ws, tables::dim_text(&wd), si.short(), got.short()))
                    }
                }
            };
        }
        // The statement constrains accepted unit words only; a prefixed word
        // the tool rejects outright (`kton` lexes as kt+on) is C05's business.
        if let Res::Err { .. } = &got {
            if obs::rejected_unit_word(env.db(), q).is_some() {
                return Verdict::DontCare("unit word rejected by the tool");
            }
        }
        let int = |n: i64| BigRational::from_integer(BigInt::from(n));
        if case.fam.starts_with("plain") {
            let qs = case.data["q"].as_str().unwrap();
            let m = meaning(qs);
            let (x, y, minus) = if q.starts_with("2 +") {
                (int(2), int(1), false)
            } else if q.ends_with("+ 2") {
                (int(1), int(2), false)
            } else if q.starts_with("5 -") {
                (int(5), int(1), true)
            } else {
                (int(1), int(5), true)
            };
            let want = (if minus { x - y } else { x + y }) * &m.scale;
            return match &got {
                Res::Ok { value, unit, .. } => match units::si_of(value, unit, false) {
                    Ok(si) if si.dim == m.dim && si.value == want => fw::pass(true, fw::hash_str(&si.short())),
                    Ok(si) => fw::fail(
                        format!("{}:{}", case.fam, if si.dim == m.dim { "value" } else { "unit-not-adopted" }),
                        format!("{q}: the plain number must adopt [{}]; expected SI {} [{}], got {} (displayed {})", qs, want, tables::dim_text(&m.dim), si.short(), got.short()),
                    ),
                    Err(e) => crate::units::table_verdict(format!("{q}: {e}")),
                },
                Res::Err { msg, .. } => fw::fail(format!("{}:error", case.fam), format!("{q}: a plain number combined with a quantity must succeed, got error: {msg}")),
            };
        }
        let a = case.data["a"].as_str().unwrap();
        let b = case.data["b"].as_str().unwrap();
        let (ma, mb) = (meaning(a), meaning(b));
        let commensurable = ma.dim == mb.dim;
        let op = case.fam;
        match (&got, commensurable) {
            (Res::Err { msg, .. }, false) => fw::pass(true, fw::hash_str(&format!("E:{}", &msg[..msg.len().min(12)]))),
            (Res::Err { msg, .. }, true) => fw::fail(sig(op, a, b, "refused"), format!("{q}: both sides reduce to [{}] but the tool refused: {msg}", tables::dim_text(&ma.dim))),
            (Res::Ok { .. }, false) => fw::fail(sig(op, a, b, "accepted"), format!("{q}: [{}] vs [{}] are incommensurable but the tool returned {}", tables::dim_text(&ma.dim), tables::dim_text(&mb.dim), got.short())),
            (Res::Ok { value, unit, unit_text }, true) => {
                let si = match units::si_of(value, unit, false) {
                    Ok(si) => si,
                    Err(e) => return crate::units::table_verdict(format!("{q}: {e}")),
                };
                let coef = |k: &str, d: i64| int(case.data.get(k).and_then(|v| v.as_i64()).unwrap_or(d));
                let want = match op {
                    "add" => coef("ca", 1) * &ma.scale + coef("cb", 1) * &mb.scale,
                    "sub" => coef("ca", 3) * &ma.scale - coef("cb", 1) * &mb.scale,
                    _ => ma.scale.clone(),
                };
                if si.dim != ma.dim || si.value != want {
                    return fw::fail(sig(op, a, b, "value"), format!("{q}: expected SI {} [{}], got {} (displayed {})", want, tables::dim_text(&ma.dim), si.short(), got.short()));
                }
                if op == "to" {
                    // the result must be expressed in the target unit as the tool itself reads it
                    match obs::eval_one(env.db(), &format!("1 {b}")) {
                        Ok(Res::Ok { unit: bu, unit_text: bt, .. }) => {
                            if &bu != unit {
                                return fw::fail(sig(op, a, b, "not-in-target-unit"), format!("{q}: result is in [{unit_text}], target reads as [{bt}]"));
                            }
                        }
                        _ => {}
                    }
                }
                fw::pass(true, fw::hash_str(&si.short()))
            }
        }
    }
    fn bounds(&self, tier: Tier) -> serde_json::Value {
        serde_json::json!({"spellings": spellings(tier).len(), "operations": ["+", "-", "to"], "core_units_for_products": tier.pick(14, 26)})
    }
}
