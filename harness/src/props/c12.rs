//! C12 — lexing and parsing are lossless over the input text.

use crate::fw::{self, Case, Env, Prop, Tier, Verdict};
use anything::syntax::lexer::Lexer;
use anything::syntax::parser::Parser;

pub struct C12;

pub const ALPHABET: [&str; 40] = [
    "0", "1", "9", "e", "E", "t", "o", "m", "x", ".", ",", "+", "-", "*", "/", "^", "%", "(", ")", "{", "}", " ", "\t", "\n", "\u{a0}", "\u{2003}", "\u{3000}", "°", "'", "é", "Ω", "μ", "€", "😀", "\u{301}", "_", "=", "\"", "\\", "\0",
];

/// Token-level alphabet: whole tokens, so that structures of six tokens (`_{m}_1`) are reached.
pub const TOKS: [&str; 12] = [" ", "1", "m", "{", "}", "(", ")", "+", "to", ",", "1.5", "*"];
/// Unit strings with trailing content, parsed through `str::parse::<Compound>` right before the
/// judged input on the same thread (the unit grammar stops early and leaves look-ahead behind).
pub const POLLUTERS: [&str; 5] = ["km/h ", "km )", "m/s²", "kg*m (", "1"];

/// Size ladder: how often a short token sequence is repeated / how deep it is nested.
pub const LADDER: [usize; 10] = [8, 20, 31, 32, 33, 34, 40, 64, 100, 257];
/// (opening, closing) wrappers nested k deep around a short token sequence; unbalanced on purpose too.
pub const WRAPS: [(&str, &str); 10] = [("(", ")"), ("(", ""), ("", ")"), ("round(", ")"), ("(1+", ")"), ("(1, ", ""), ("{", "}"), ("-", ""), ("1 to ", ""), ("(1 + ) ", "")];

#[derive(Debug)]
pub struct Loss {
    pub class: &'static str,
    pub why: String,
}

/// The lexer side of the property; returns the (kind, len) sequence.
pub fn lex_lossless(s: &str) -> Result<Vec<(String, usize)>, Loss> {
    let mut out = Vec::new();
    let mut off = 0usize;
    let cap = s.len() + 1;
    for t in Lexer::new(s) {
        if out.len() >= cap {
            return Err(Loss { class: "lexer-nontermination", why: format!("more than {cap} tokens for {} bytes", s.len()) });
        }
        if t.len == 0 {
            return Err(Loss { class: "lexer-empty-token", why: format!("empty {:?} token at byte {off}", t.kind) });
        }
        off += t.len;
        if off > s.len() || !s.is_char_boundary(off) {
            return Err(Loss { class: "lexer-boundary", why: format!("{:?} token ends at byte {off}, not a character boundary inside the input", t.kind) });
        }
        out.push((format!("{:?}", t.kind), t.len));
    }
    if off != s.len() {
        return Err(Loss { class: "lexer-coverage", why: format!("tokens cover {off} of {} bytes", s.len()) });
    }
    Ok(out)
}

pub fn parse_lossless(s: &str, toks: &[(String, usize)]) -> Result<(), Loss> {
    let tree = match Parser::new(s).parse_root() {
        Ok(t) => t,
        Err(e) => return Err(Loss { class: "parse-error", why: format!("parse_root failed: {e}") }),
    };
    let mut i = 0usize;
    let mut off = 0usize;
    for node in tree.walk() {
        if node.has_children() {
            continue;
        }
        let span = node.span();
        let (st, en) = (span.start as usize, span.end as usize);
        if st == en {
            continue;
        }
        if st != off {
            return Err(Loss { class: "tree-gap", why: format!("leaf {:?} starts at {st}, previous leaf ended at {off}", node.value()) });
        }
        match toks.get(i) {
            Some((k, l)) if *k == format!("{:?}", node.value()) && *l == en - st => {}
            other => {
                return Err(Loss { class: "tree-leaf-mismatch", why: format!("leaf #{i} is {:?}@{st}..{en}, lexer token is {other:?}", node.value()) });
            }
        }
        off = en;
        i += 1;
    }
    if i != toks.len() || off != s.len() {
        return Err(Loss { class: "tree-coverage", why: format!("tree has {i} token leaves covering {off} bytes; lexer has {} tokens over {} bytes", toks.len(), s.len()) });
    }
    Ok(())
}

fn judge(s: &str, with_parser: bool) -> Result<(usize, u64), Loss> {
    let toks = lex_lossless(s)?;
    if with_parser {
        parse_lossless(s, &toks)?;
    }
    let mut h = 1469598103934665603u64;
    for (k, l) in &toks {
        h = (h ^ fw::hash_str(k)).wrapping_mul(1099511628211).wrapping_add(*l as u64);
    }
    Ok((toks.len(), h))
}

fn judge_caught(s: &str, with_parser: bool) -> Result<(usize, u64), Loss> {
    match std::panic::catch_unwind(|| judge(s, with_parser)) {
        Ok(r) => r,
        Err(_) => Err(Loss { class: "panic", why: "lexer/parser panicked".into() }),
    }
}

fn show(s: &str) -> String {
    s.chars().map(|c| if c.is_ascii_graphic() || c == ' ' { c.to_string() } else { format!("\\u{{{:x}}}", c as u32) }).collect()
}

impl Prop for C12 {
    fn id(&self) -> &'static str {
        "C12"
    }
    fn observes_units(&self) -> bool {
        false
    }
    fn rule(&self) -> String {
        "every string over a 40-symbol alphabet (digits, e/E, letters t o m x, operators, brackets, braces, six blank kinds incl. NBSP/U+2003/U+3000, degree sign, apostrophe, 2-4 byte letters, a combining mark, _ = \" \\ and NUL) up to length 5 (quick) / 6 (thorough) through lexer and parser; every sequence of up to 6 whole tokens over a 12-token alphabet (blank, number, word, braces, parentheses, +, to, comma, decimal, *); every string up to length 3 parsed right after a unit string with trailing content went through str::parse::<Compound> on the same thread (5 such strings); long inputs: every sequence of 1..3 whole tokens repeated k times (with and without a blank) and nested k deep inside ten wrappers (balanced and unbalanced parentheses, a call, a dangling operator, braces, a sign, a cast chain) for k in {8,20,31,32,33,34,40,64,100,257}. A case is a 2-symbol prefix whose check enumerates all completions (bulk). Oracle: tokens non-empty, end on character boundaries, cover the input exactly; parse_root succeeds and the childless non-empty nodes of the tree, in order, equal the lexer's (kind,len) sequence and tile the input. Non-trivial = the string lexes into >=2 tokens; distinct by construction (distinct strings)".into()
    }
    fn assumptions(&self) -> Vec<String> {
        vec!["strings longer than 6 symbols are covered by the repetition/nesting ladder (periodic inputs only) and by C11's seeds and token sequences".into()]
    }
    fn generate(&self, _tier: Tier, sink: &mut dyn FnMut(Case)) {
        sink(Case::new("short", ""));
        for a in 0..40 {
            sink(Case::new("short", format!("{a}")));
        }
        for a in 0..40 {
            for b in 0..40 {
                sink(Case::new("prefix2", format!("{a},{b}")));
            }
        }
        for a in 0..TOKS.len() {
            for b in 0..TOKS.len() {
                sink(Case::new("tokens6", format!("{a},{b}")));
            }
        }
        for p in 0..POLLUTERS.len() {
            for a in 0..40 {
                sink(Case::new("after-unit-parse", format!("{p},{a}")));
            }
        }
        // long inputs: every sequence of 1..=3 whole tokens, repeated and nested along a size ladder
        let n = TOKS.len();
        for a in 0..n {
            sink(Case::new("ladder", format!("{a}")));
            for b in 0..n {
                sink(Case::new("ladder", format!("{a},{b}")));
                for c in 0..n {
                    sink(Case::new("ladder", format!("{a},{b},{c}")));
                }
            }
        }
    }
    fn check(&self, env: &mut Env, case: &Case) -> Verdict {
        let idx: Vec<usize> = if case.key.is_empty() { vec![] } else { case.key.split(',').map(|s| s.parse().unwrap()).collect() };
        if case.fam == "ladder" {
            let unit: String = idx.iter().map(|i| TOKS[*i]).collect();
            let mut inputs: Vec<String> = Vec::new();
            for k in LADDER {
                inputs.push(unit.repeat(k));
                inputs.push(format!("{unit} ").repeat(k));
                for (pre, post) in WRAPS {
                    inputs.push(format!("{}{unit}{}", pre.repeat(k), post.repeat(k)));
                }
            }
            let mut nontrivial = 0u64;
            let mut obs = 0u64;
            for s in &inputs {
                match judge_caught(s, true) {
                    Ok((n, h)) => {
                        if n >= 2 {
                            nontrivial += 1;
                        }
                        obs = obs.wrapping_mul(1099511628211).wrapping_add(h);
                    }
                    Err(l) => {
                        let shown = if s.len() > 120 { format!("{}... ({} bytes; unit \"{}\")", show(&s[..100]), s.len(), show(&unit)) } else { show(s) };
                        return fw::fail(format!("{}:ladder", l.class), format!("input \"{shown}\": {}", l.why));
                    }
                }
            }
            env.bulk_evals += inputs.len() as u64 - 1;
            env.bulk_nontrivial += nontrivial.saturating_sub(1);
            return fw::pass(nontrivial > 0, obs);
        }
        if case.fam == "tokens6" || case.fam == "after-unit-parse" {
            let (alphabet, start, maxlen, polluter): (&[&str], String, usize, Option<&str>) = if case.fam == "tokens6" {
                (&TOKS, format!("{}{}", TOKS[idx[0]], TOKS[idx[1]]), 6, None)
            } else {
                (&ALPHABET, ALPHABET[idx[1]].to_string(), 3, Some(POLLUTERS[idx[0]]))
            };
            let depth0 = if case.fam == "tokens6" { 2 } else { 1 };
            let mut evals = 0u64;
            let mut nontrivial = 0u64;
            let mut obs = 0u64;
            let mut first: Option<(String, String)> = None;
            fn rec2(buf: &mut String, depth: usize, maxlen: usize, alphabet: &[&str], polluter: Option<&str>, evals: &mut u64, nontrivial: &mut u64, obs: &mut u64, first: &mut Option<(String, String)>) {
                *evals += 1;
                if let Some(p) = polluter {
                    let _ = std::panic::catch_unwind(|| p.parse::<anything::Compound>().is_ok());
                }
                match judge_caught(buf, true) {
                    Ok((n, h)) => {
                        if n >= 2 {
                            *nontrivial += 1;
                        }
                        *obs = obs.wrapping_mul(1099511628211).wrapping_add(h);
                    }
                    Err(l) => {
                        if first.is_none() {
                            let ctx = polluter.map(|p| format!(" (parsed right after str::parse::<Compound>({p:?}) on the same thread)")).unwrap_or_default();
                            *first = Some((l.class.to_string(), format!("input \"{}\"{ctx}: {}", show(buf), l.why)));
                        }
                    }
                }
                if depth < maxlen {
                    for sym in alphabet {
                        let len = buf.len();
                        buf.push_str(sym);
                        rec2(buf, depth + 1, maxlen, alphabet, polluter, evals, nontrivial, obs, first);
                        buf.truncate(len);
                    }
                }
            }
            let mut buf = start;
            rec2(&mut buf, depth0, maxlen, alphabet, polluter, &mut evals, &mut nontrivial, &mut obs, &mut first);
            env.bulk_evals += evals - 1;
            env.bulk_nontrivial += nontrivial.saturating_sub(1);
            return match first {
                None => fw::pass(nontrivial > 0, obs),
                Some((sig, why)) => fw::fail(format!("{sig}:{}", case.fam), why),
            };
        }
        let prefix: String = idx.iter().map(|i| ALPHABET[*i]).collect();
        let (lp, ll) = match (case.fam, env.tier) {
            ("short", _) => (idx.len(), idx.len()),
            (_, Tier::Quick) => (5, 5),
            (_, Tier::Thorough) => (6, 6),
        };
        let mut evals = 0u64;
        let mut nontrivial = 0u64;
        let mut obs = 0u64;
        let mut first: Option<(String, String)> = None;
        let mut buf = prefix.clone();
        // iterative enumeration of all extensions up to total length ll
        fn rec(buf: &mut String, depth: usize, lp: usize, ll: usize, evals: &mut u64, nontrivial: &mut u64, obs: &mut u64, first: &mut Option<(String, String)>) {
            let with_parser = depth <= lp;
            *evals += 1;
            match judge_caught(buf, with_parser) {
                Ok((n, h)) => {
                    if n >= 2 {
                        *nontrivial += 1;
                    }
                    *obs = obs.wrapping_mul(1099511628211).wrapping_add(h);
                }
                Err(l) => {
                    if first.is_none() {
                        *first = Some((l.class.to_string(), format!("input \"{}\": {}", show(buf), l.why)));
                    }
                }
            }
            if depth < ll {
                for sym in ALPHABET {
                    let len = buf.len();
                    buf.push_str(sym);
                    rec(buf, depth + 1, lp, ll, evals, nontrivial, obs, first);
                    buf.truncate(len);
                }
            }
        }
        rec(&mut buf, idx.len(), lp, ll, &mut evals, &mut nontrivial, &mut obs, &mut first);
        env.bulk_evals += evals - 1;
        env.bulk_nontrivial += nontrivial.saturating_sub(1);
        match first {
            None => fw::pass(nontrivial > 0, obs),
            Some((sig, why)) => fw::fail(sig, why),
        }
    }
    fn case_budget_s(&self) -> u64 {
        600
    }
    fn bounds(&self, tier: Tier) -> serde_json::Value {
        serde_json::json!({"alphabet": 40, "length_lexer_and_parser": tier.pick(5, 6)})
    }
}
