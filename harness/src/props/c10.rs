//! C10 — rounding functions return the mathematically defined value.

use crate::fw::{self, Case, Env, Prop, Tier, Verdict};
use crate::obs::{self, pow10, Res};
use crate::refcalc::{ref_ceil, ref_floor, ref_round, ref_round_digits};
use num::{BigInt, BigRational};

pub struct C10;

fn gcd(a: i64, b: i64) -> i64 {
    if b == 0 {
        a.abs()
    } else {
        gcd(b, a % b)
    }
}

/// Argument spellings: (text, exact value)
fn args(tier: Tier) -> Vec<(String, BigRational)> {
    let mut v: Vec<(String, BigRational)> = Vec::new();
    let (pm, qm) = tier.pick((40, 8), (400, 40));
    for q in 1..=qm {
        for p in -pm..=pm {
            if gcd(p, q) != 1 {
                continue;
            }
            let val = BigRational::new(BigInt::from(p), BigInt::from(q));
            if q == 1 {
                v.push((format!("{p}"), val));
            } else {
                v.push((format!("{p} / {q}"), val.clone()));
                v.push((format!("({p} / {q})"), val));
            }
        }
    }
    // decimals: exact halves and boundary +- 10^-k
    for n in [-101i64, -3, -2, -1, 0, 1, 2, 3, 10, 99, 1000] {
        for (half, hv) in [("", 0i64), (".5", 5)] {
            if n < 0 && half.is_empty() {
                // covered by the integer grid, keep anyway for big ones
            }
            let text = if n < 0 { format!("-{}{half}", -n) } else { format!("{n}{half}") };
            let val = if n < 0 {
                BigRational::from_integer(BigInt::from(n)) - BigRational::new(BigInt::from(hv), BigInt::from(10))
            } else {
                BigRational::from_integer(BigInt::from(n)) + BigRational::new(BigInt::from(hv), BigInt::from(10))
            };
            v.push((text.clone(), val.clone()));
            for k in 1..=7i64 {
                for sgn in [-1i64, 1] {
                    // value +- 10^-k written as a decimal via the reference reader
                    let w = val.clone() + BigRational::from_integer(BigInt::from(sgn)) * pow10(-k);
                    v.push((decimal_text(&w), w));
                }
            }
        }
    }
    // fine boundaries: integers and halves +- 10^-k for k up to 25, at magnitudes around 0, 2^53,
    // 2^63 and 2^64 (any machine-word or floating-point shortcut loses these)
    for m in ["0", "2", "3", "1000000000000000", "9007199254740992", "9007199254740993", "9223372036854775807", "18446744073709551616"] {
        let mut fr: Vec<String> = vec!["".into(), ".5".into()];
        for k in [8usize, 12, 15, 16, 17, 18, 19, 20, 25] {
            fr.push(format!(".4{}", "9".repeat(k - 1)));
            fr.push(format!(".5{}1", "0".repeat(k - 2)));
            fr.push(format!(".{}1", "0".repeat(k - 1)));
            fr.push(format!(".{}", "9".repeat(k)));
        }
        for f in fr {
            for sign in ["", "-"] {
                let text = format!("{sign}{m}{f}");
                if let Some(val) = crate::refcalc::ref_decimal(&text) {
                    v.push((text, val));
                }
            }
        }
    }
    for s in ["1.00499999999999999", "1.00500000000000001", "-1.00499999999999999", "-1.00500000000000001", "0.049999999999999999", "0.050000000000000001", "123456789012345.675", "123456789012345.674999999"] {
        v.push((s.to_string(), crate::refcalc::ref_decimal(s).unwrap()));
    }
    // values for digit rounding
    for s in ["1234.5678", "-1234.5678", "0.05", "-0.05", "0.15", "0.25", "-0.25", "1234567.891", "999999.5", "-999999.5", "5", "15", "-15", "25", "149", "150", "-150", "0.0000005", "0.00000049"] {
        v.push((s.to_string(), crate::refcalc::ref_decimal(s).unwrap()));
    }
    v
}

fn decimal_text(v: &BigRational) -> String {
    // v is a finite decimal with <= 8 fractional digits
    use num::Signed;
    let scaled = v.clone() * pow10(8);
    assert!(scaled.is_integer());
    let n = scaled.numer().clone();
    let neg = n.is_negative();
    let s = n.abs().to_string();
    let s = if s.len() <= 8 { format!("{}{}", "0".repeat(9 - s.len()), s) } else { s };
    let (i, f) = s.split_at(s.len() - 8);
    let f = f.trim_end_matches('0');
    let body = if f.is_empty() { i.to_string() } else { format!("{i}.{f}") };
    if neg {
        format!("-{body}")
    } else {
        body
    }
}

impl Prop for C10 {
    fn id(&self) -> &'static str {
        "C10"
    }
    fn profiles(&self, _tier: Tier) -> Vec<&'static str> {
        vec!["release", "verif-debug"]
    }
    fn rule(&self) -> String {
        "x = p/q (|p|<=40,q<=8; thorough |p|<=60,q<=12) spelled `p / q`, `(p / q)` or as an integer; exact halves and boundary +- 10^-k (k<=7) as decimals; fine boundaries (integer and half +- 10^-k for k in 8..25 at magnitudes 0, 2, 3, 1e15, 2^53, 2^53+1, 2^63-1, 2^64, both signs); x {floor, ceil, round, round(x,n) for n in -6..6}; two-step histories round(x,n1) then round(y,n2) on one thread for every ordered pair of 20 digit counts up to +-39 (across the u64 and u128 ranges of 10^n) over three 30-50-digit values, each step and their sum judged; arguments carrying a unit (km, m/s, decades) with the unit required on the result; wrong arities 0,2,3 (floor/ceil) and 0,3 (round), also with a call among the arguments; nested calls f(g(x)), f(g(x) / 3), round(g(x) / 3, 2), round(x, f(d)) and calls inside a larger expression over 6 values x 3 x 3 functions. Both build profiles (release; release+debug-assertions+overflow-checks). Non-trivial = the argument is not an integer or digits != 0; distinct = distinct query strings".into()
    }
    fn assumptions(&self) -> Vec<String> {
        vec!["a non-integer digits argument is not judged".into()]
    }
    fn generate(&self, tier: Tier, sink: &mut dyn FnMut(Case)) {
        for (text, _) in args(tier) {
            for f in ["floor", "ceil", "round"] {
                sink(Case::with("unary", format!("{f}({text})"), serde_json::json!({"f": f, "x": text})));
            }
            for n in -6..=6i64 {
                sink(Case::with("digits", format!("round({text}, {n})"), serde_json::json!({"f": "round", "x": text, "n": n})));
            }
        }
        // digits beyond the machine-word range of 10^n (10^19 < 2^64 < 10^20, 10^38 < 2^128 < 10^39),
        // as two-step histories on one thread: every ordered pair of digit counts (so n after -n, n
        // after n, a small one after a wide one ...), each step judged on its own, then both in one
        // expression
        let wide: [i64; 20] = [7, -7, 9, -9, 10, -10, 18, -18, 19, -19, 20, -20, 21, -21, 25, -25, 38, -38, 39, -39];
        let xs = ["123456789012345678901234567890.123456789012345678901234567895", "-0.1234567890123456789012345678901234567890123456789", "5000000000000000000000000.5"];
        for (i, x) in xs.iter().enumerate() {
            let y = xs[(i + 1) % xs.len()];
            for n1 in wide {
                for n2 in wide {
                    sink(Case::with("digits-seq", format!("round({x}, {n1}) ; round({y}, {n2})"), serde_json::json!({"x": x, "n1": n1, "y": y, "n2": n2})));
                }
            }
        }
        // digit counts as large as the argument itself: values of 40 to 900 digits rounded to the
        // multiples of 10^k for k just below, at and above their own magnitude (where the result
        // is the leading digit rounded, one unit of the next magnitude, or zero)
        for d in [40i64, 100, 237, 238, 239, 240, 300, 600, 900] {
            for m in ["1", "4.9", "5", "5.1", "7", "-4.9", "-5", "-7", "9.99"] {
                let x = format!("{m}e{d}");
                for n in [-(d - 1), -d, -(d + 1), -(d + 2), -(d + 7)] {
                    sink(Case::with("digits", format!("round({x}, {n})"), serde_json::json!({"f": "round", "x": x, "n": n})));
                }
                sink(Case::with("unit", format!("round({x} m, {})", -(d + 1)), serde_json::json!({"f": "round", "x": x, "u": "m", "n": -(d + 1)})));
            }
        }
        // unit carried through
        for (x, u) in [("2.5", "km"), ("-2.5", "km"), ("7.25", "m/s"), ("-0.5", "decade"), ("1234.5", "m"), ("3.75", "kg*m/s^2"), ("2.5", "°C")] {
            for f in ["floor", "ceil", "round"] {
                sink(Case::with("unit", format!("{f}({x} {u})"), serde_json::json!({"f": f, "x": x, "u": u})));
            }
            for n in [-2i64, -1, 1, 2] {
                sink(Case::with("unit", format!("round({x} {u}, {n})"), serde_json::json!({"f": "round", "x": x, "u": u, "n": n})));
            }
        }
        // a conversion inside the argument, and a call as the left side of a conversion: the argument
        // is evaluated as a unit first (its value taken from the tool's own answer for the cast)
        for (x, u, v) in [("1234.5", "m", "km"), ("2.567", "km", "m"), ("98.6", "°F", "°C"), ("-40.5", "°C", "°F"), ("90", "km/h", "m/s"), ("7.5", "in", "cm"), ("-3.75", "h", "min")] {
            for f in ["floor", "ceil", "round"] {
                sink(Case::with("arg-cast", format!("{f}({x} {u} to {v})"), serde_json::json!({"f": f, "inner": format!("{x} {u} to {v}")})));
                sink(Case::with("call-cast", format!("{f}({x} {u}) to {v}"), serde_json::json!({"f": f, "x": x, "u": u, "v": v})));
            }
            for n in [-1i64, 1, 2] {
                sink(Case::with("arg-cast", format!("round({x} {u} to {v}, {n})"), serde_json::json!({"f": "round", "n": n, "inner": format!("{x} {u} to {v}")})));
            }
        }
        // nested calls: a call as the argument of a call, in the first and in the digits position,
        // and inside a larger argument expression
        for x in ["2.567", "-2.567", "7.5", "-7.5", "1234.5678", "0.05"] {
            let xv = crate::refcalc::ref_decimal(x).unwrap();
            let fs: [(&str, fn(&BigRational) -> BigRational); 3] = [
                ("floor", |v| BigRational::from_integer(ref_floor(v))),
                ("ceil", |v| BigRational::from_integer(ref_ceil(v))),
                ("round", |v| BigRational::from_integer(ref_round(v))),
            ];
            for (f, ff) in &fs {
                for (g, gf) in &fs {
                    // f(g(x)), f(g(x) / 3)
                    let want = ff(&gf(&xv));
                    sink(Case::with("nested", format!("{f}({g}({x}))"), serde_json::json!({"want": want.to_string()})));
                    let third = gf(&xv) / BigRational::from_integer(BigInt::from(3));
                    sink(Case::with("nested", format!("{f}({g}({x}) / 3)"), serde_json::json!({"want": ff(&third).to_string()})));
                    sink(Case::with("nested", format!("round({g}({x}) / 3, 2)"), serde_json::json!({"want": ref_round_digits(&third, 2).to_string()})));
                }
                // the digits argument is itself a call: round(x, g(d))
                for d in ["1.5", "2.5", "-1.5", "0.4"] {
                    let dv = crate::refcalc::ref_decimal(d).unwrap();
                    let n = ff(&dv);
                    let n = n.to_integer();
                    use num::ToPrimitive;
                    let n = n.to_i64().unwrap();
                    sink(Case::with("nested", format!("round({x}, {f}({d}))"), serde_json::json!({"want": ref_round_digits(&xv, n).to_string()})));
                    sink(Case::with("nested", format!("round({x}, ({f}({d})))"), serde_json::json!({"want": ref_round_digits(&xv, n).to_string()})));
                    sink(Case::with("nested", format!("2 * round({x}, {f}({d})) + 1"), serde_json::json!({"want": (ref_round_digits(&xv, n) * BigRational::from_integer(BigInt::from(2)) + BigRational::from_integer(BigInt::from(1))).to_string()})));
                }
            }
        }
        // arity: a nested call must not change the number of arguments either
        for q in ["floor(1.5, ceil(2.5))", "ceil(floor(1.5), 2)", "round(1.5, floor(1.2), ceil(3.4))"] {
            sink(Case::new("arity", q));
        }
        // arity
        for q in ["floor()", "ceil()", "round()", "floor(1, 2)", "ceil(1, 2)", "floor(1, 2, 3)", "ceil(1.5, 2, 3)", "round(1, 2, 3)", "round(1.5, 1, 1, 1)"] {
            sink(Case::new("arity", q));
        }
    }
    fn check(&self, env: &mut Env, case: &Case) -> Verdict {
        let q = &case.key;
        if case.fam == "digits-seq" {
            let (xt, yt) = (case.data["x"].as_str().unwrap(), case.data["y"].as_str().unwrap());
            let (n1, n2) = (case.data["n1"].as_i64().unwrap(), case.data["n2"].as_i64().unwrap());
            let w1 = ref_round_digits(&crate::refcalc::ref_decimal(xt).unwrap(), n1);
            let w2 = ref_round_digits(&crate::refcalc::ref_decimal(yt).unwrap(), n2);
            let steps = [(format!("round({xt}, {n1})"), w1.clone()), (format!("round({yt}, {n2})"), w2.clone()), (format!("round({xt}, {n1}) + round({yt}, {n2})"), &w1 + &w2)];
            for (k, (sq, want)) in steps.iter().enumerate() {
                match obs::eval_one(env.db(), sq) {
                    Ok(Res::Ok { value, unit, .. }) if unit.is_empty() && &value == want => {}
                    Ok(r) => return fw::fail(format!("digits-seq:step{k}:{}", if n1.signum() == n2.signum() { "same-sign" } else { "other-sign" }), format!("{q}: step {k} `{sq}` = {}, expected {want}", r.short())),
                    Err(why) => return fw::fail("results:digits-seq", format!("{sq}: {why}")),
                }
            }
            return fw::pass(true, fw::hash_str(&format!("{w1} {w2}")));
        }
        let got = match obs::eval_one(env.db(), q) {
            Ok(r) => r,
            Err(why) => return fw::fail(format!("results:{}", case.fam), format!("{q}: {why}")),
        };
        if case.fam == "arg-cast" || case.fam == "call-cast" {
            let f = case.data["f"].as_str().unwrap();
            let n = case.data.get("n").and_then(|n| n.as_i64());
            let apply = |v: &BigRational| match (f, n) {
                ("floor", _) => BigRational::from_integer(ref_floor(v)),
                ("ceil", _) => BigRational::from_integer(ref_ceil(v)),
                (_, None) => BigRational::from_integer(ref_round(v)),
                (_, Some(n)) => ref_round_digits(v, n),
            };
            // arg-cast: f applied to the tool's own answer for the inner cast, unit kept;
            // call-cast: the tool's own answer for `f(x) u to v` written with the rounded literal
            let (want, want_unit) = if case.fam == "arg-cast" {
                match obs::eval_one(env.db(), case.data["inner"].as_str().unwrap()) {
                    Ok(Res::Ok { value, unit, .. }) => (apply(&value), unit),
                    other => return Verdict::DontCare(if other.is_ok() { "inner cast refused" } else { "inner cast not a single result" }),
                }
            } else {
                let x = crate::refcalc::ref_decimal(case.data["x"].as_str().unwrap()).unwrap();
                let r = apply(&x);
                let lit = if r.is_integer() { r.to_integer().to_string() } else { format!("({} / {})", r.numer(), r.denom()) };
                match obs::eval_one(env.db(), &format!("{lit} {} to {}", case.data["u"].as_str().unwrap(), case.data["v"].as_str().unwrap())) {
                    Ok(Res::Ok { value, unit, .. }) => (value, unit),
                    _ => return Verdict::DontCare("reference cast refused"),
                }
            };
            return match got {
                Res::Ok { value, unit, .. } if value == want && unit == want_unit => fw::pass(true, fw::hash_str(&want.to_string())),
                r => fw::fail(format!("{}:{f}", case.fam), format!("{q}: expected {want} in the unit of the cast, got {}", r.short())),
            };
        }
        if case.fam == "arity" {
            return match got {
                Res::Err { .. } => fw::pass(true, fw::hash_str(&got.short())),
                r => fw::fail(format!("arity:{q}"), format!("{q}: wrong number of arguments accepted: {}", r.short())),
            };
        }
        if case.fam == "nested" {
            let w = case.data["want"].as_str().unwrap();
            let want = match w.split_once('/') {
                Some((a, b)) => BigRational::new(a.parse().unwrap(), b.parse().unwrap()),
                None => BigRational::from_integer(w.parse().unwrap()),
            };
            return match got {
                Res::Ok { value, unit, .. } if unit.is_empty() && value == want => fw::pass(true, fw::hash_str(w)),
                r => fw::fail("nested-call", format!("{q}: expected {want}, got {}", r.short())),
            };
        }
        let f = case.data["f"].as_str().unwrap();
        let xt = case.data["x"].as_str().unwrap();
        let x = if let Some(v) = crate::refcalc::ref_decimal(xt) {
            v
        } else {
            let t = xt.trim_matches(|c| c == '(' || c == ')');
            let (a, b) = t.split_once(" / ").unwrap();
            BigRational::new(a.parse().unwrap(), b.parse().unwrap())
        };
        let n = case.data.get("n").and_then(|n| n.as_i64());
        let want = match (f, n) {
            ("floor", _) => BigRational::from_integer(ref_floor(&x)),
            ("ceil", _) => BigRational::from_integer(ref_ceil(&x)),
            ("round", None) => BigRational::from_integer(ref_round(&x)),
            ("round", Some(n)) => ref_round_digits(&x, n),
            _ => unreachable!(),
        };
        let nontrivial = !x.is_integer() || n.map(|n| n != 0).unwrap_or(false);
        let class = || {
            use num::Signed;
            format!(
                "{f}{}:{}{}",
                if n.is_some() { "-digits" } else { "" },
                if x.is_negative() { "neg" } else { "nonneg" },
                if x.is_integer() { "-int" } else { "" }
            )
        };
        match got {
            Res::Ok { value, unit, unit_text } => {
                if value != want {
                    return fw::fail(class(), format!("{q} = {value}, expected {want}"));
                }
                if let Some(u) = case.data.get("u").and_then(|u| u.as_str()) {
                    // the unit must be the unit of the bare argument
                    let bare = obs::eval_one(env.db(), &format!("{xt} {u}"));
                    match bare {
                        Ok(Res::Ok { unit: bu, unit_text: bt, .. }) => {
                            if bu != unit {
                                return fw::fail(format!("unit-changed:{f}"), format!("{q}: unit of the argument is [{bt}] but the result carries [{unit_text}]"));
                            }
                        }
                        other => return fw::fail(format!("unit-arg:{u}"), format!("bare argument `{xt} {u}` did not evaluate: {other:?}")),
                    }
                } else if !unit.is_empty() {
                    return fw::fail(format!("unit-appeared:{f}"), format!("{q}: result carries a unit [{unit_text}]"));
                }
                fw::pass(nontrivial, fw::hash_str(&want.to_string()))
            }
            Res::Err { msg, .. } => fw::fail(class(), format!("{q}: expected {want}, got error: {msg}")),
        }
    }
    fn bounds(&self, tier: Tier) -> serde_json::Value {
        serde_json::json!({"p_max": tier.pick(40, 400), "q_max": tier.pick(8, 40), "digits": "-6..6", "profiles": ["release", "verif-debug"]})
    }
}
