//! C15 — the on-disk index always recovers to the shipped data.
//!
//! Crash-point enumeration: the real start-up (`Db::open()` in the helper
//! `vh open-probe`) runs under the LD_PRELOAD shim /verif/shim/crash.so, which
//! SIGKILLs the process before its N-th file-system mutation under the data
//! directory (optionally after a torn write). Every N is enumerated for a set
//! of prior directory states, each followed by crash-free starts that must
//! answer exactly like a fresh in-memory database.

use crate::fw::{self, Case, Env, Prop, Tier, Verdict};
use crate::refdb;
use std::path::{Path, PathBuf};
use std::process::Command;

pub struct C15;

/// cap on the crash point number; a start with one indexing thread performs
/// about 110 mutations, one with eight threads about 520
const NCAP: usize = 560;
/// bounds of the two-crash histories (thorough): first and second crash point
const DOUBLE_N1: usize = 130;
const DOUBLE_N2: usize = 140;

pub fn probes() -> Vec<String> {
    let mut v: Vec<String> = Vec::new();
    let cs = refdb::constants();
    for (i, c) in cs.iter().enumerate() {
        if i % 23 == 0 && crate::props::c16::typeable_phrase(&c.tokens) {
            v.push(c.tokens.join(" "));
        }
    }
    for p in ["population", "p", "mass", "a", "mercury mass", "earth mass / mercury mass", "population finland", "G gravitational constant"] {
        v.push(p.to_string());
    }
    v
}

pub fn answer(db: &anything::Db, q: &str) -> String {
    match crate::obs::eval_described(db, q, true) {
        None => "parse-failed".into(),
        Some(d) => format!(
            "{} <= {}",
            d.results.iter().map(|r| r.short()).collect::<Vec<_>>().join("; "),
            // the constant that answered and what its source resolves to in this session
            d.descriptions
                .iter()
                .map(|(_, c)| format!("{:?} source {:?} -> {:?}", c.tokens, c.source, c.source.map(|id| db.get_source(id).map(|s| (s.id, s.description.to_string())))))
                .collect::<Vec<_>>()
                .join("; ")
        ),
    }
}

/// `vh open-probe`: open the on-disk database and answer the probe set.
pub fn open_probe_main() {
    let out = match anything::Db::open() {
        Ok(db) => serde_json::json!({"ok": true, "answers": probes().iter().map(|p| answer(&db, p)).collect::<Vec<_>>()}),
        Err(e) => serde_json::json!({"ok": false, "error": format!("{e:#}")}),
    };
    println!("{out}");
}

fn shim() -> PathBuf {
    fw::verif_dir().join("shim/crash.so")
}

struct Run {
    killed: bool,
    ok: bool,
    answers: Vec<String>,
    error: String,
    log: Vec<String>,
}

fn start(data: &Path, crash_at: usize, torn: usize, assets: Option<&Path>, with_shim: bool) -> Run {
    let exe = std::env::current_exe().unwrap();
    let log = data.parent().unwrap().join("crash.log");
    let _ = std::fs::remove_file(&log);
    let mut cmd = Command::new(exe);
    cmd.arg("open-probe").env("XDG_DATA_HOME", data).env("HOME", data.parent().unwrap()).env_remove("RUST_LOG").env_remove("ANYTHING_VERIF_ASSET_DIR");
    if let Some(a) = assets {
        cmd.env("ANYTHING_VERIF_ASSET_DIR", a);
    }
    if with_shim {
        cmd.env("LD_PRELOAD", shim()).env("CRASH_DIR", data).env("CRASH_AT", crash_at.to_string()).env("CRASH_TORN", torn.to_string()).env("CRASH_LOG", &log);
    }
    let out = cmd.output().expect("run open-probe");
    use std::os::unix::process::ExitStatusExt;
    let killed = out.status.signal() == Some(9);
    let text = String::from_utf8_lossy(&out.stdout);
    let v: serde_json::Value = text.lines().rev().find(|l| l.starts_with('{')).and_then(|l| serde_json::from_str(l).ok()).unwrap_or(serde_json::Value::Null);
    let logl = std::fs::read_to_string(&log).unwrap_or_default().lines().map(|s| s.to_string()).collect();
    Run {
        killed,
        ok: v["ok"].as_bool().unwrap_or(false),
        answers: v["answers"].as_array().map(|a| a.iter().map(|x| x.as_str().unwrap_or("").to_string()).collect()).unwrap_or_default(),
        error: if v.is_null() { format!("no output; status {:?}; stderr {}", out.status, String::from_utf8_lossy(&out.stderr).lines().take(3).collect::<Vec<_>>().join(" | ")) } else { v["error"].as_str().unwrap_or("").to_string() },
        log: logl,
    }
}

fn copy_dir(from: &Path, to: &Path) {
    let _ = std::fs::remove_dir_all(to);
    std::fs::create_dir_all(to).unwrap();
    if !from.exists() {
        return;
    }
    for e in std::fs::read_dir(from).unwrap().flatten() {
        let p = e.path();
        let t = to.join(e.file_name());
        if p.is_dir() {
            copy_dir(&p, &t);
        } else {
            std::fs::copy(&p, &t).unwrap();
        }
    }
}

/// Worker-local fixtures: templates of prior states, the reference answers,
/// the reference mutation log.
struct Fixtures {
    root: PathBuf,
    reference: Vec<String>,
    current_meta: String,
    kinds: Vec<String>,
    kinds_other: Vec<String>,
    other_assets: PathBuf,
}

static FIX: std::sync::OnceLock<Fixtures> = std::sync::OnceLock::new();

fn write_other_assets(dir: &Path) {
    // a reduced data set made of shipped constants (every 40th), so that the
    // stored hash is the real one for "other data"
    use std::io::Write;
    let _ = std::fs::remove_dir_all(dir);
    std::fs::create_dir_all(dir).unwrap();
    let cs = refdb::constants();
    let chosen: Vec<serde_cbor::Value> = cs.iter().step_by(40).map(|c| c.raw.clone()).collect();
    let doc = serde_cbor::Value::Map([(serde_cbor::Value::Text("constants".into()), serde_cbor::Value::Array(chosen))].into_iter().collect());
    let f = std::fs::File::create(dir.join("other.bin.gz")).unwrap();
    let mut e = flate2::write::GzEncoder::new(f, flate2::Compression::default());
    e.write_all(&serde_cbor::to_vec(&doc).unwrap()).unwrap();
    e.finish().unwrap();
    std::fs::copy(refdb::repo_dir().join("db/sources.bin.gz"), dir.join("sources.bin.gz")).unwrap();
}

fn fixtures(env: &mut Env) -> &'static Fixtures {
    FIX.get_or_init(|| {
        let root = fw::verif_dir().join("scratch").join(format!("c15-{}", std::process::id()));
        let _ = std::fs::remove_dir_all(&root);
        std::fs::create_dir_all(&root).unwrap();
        let reference: Vec<String> = probes().iter().map(|p| answer(env.db(), p)).collect();
        // template "current": a complete build, logged
        let cur = root.join("tpl-current/data");
        std::fs::create_dir_all(&cur).unwrap();
        let r = start(&cur, 0, 0, None, true);
        if !r.ok || r.answers != reference {
            panic!("machinery: a clean first start does not answer like the in-memory database: {} {:?}", r.error, r.answers.iter().zip(reference.iter()).find(|(a, b)| a != b));
        }
        let kinds = r.log.iter().map(|l| l.split(' ').nth(1).unwrap_or("").to_string()).collect();
        let current_meta = std::fs::read_to_string(cur.join("facts/meta.json")).expect("meta.json after a clean start");
        // template "other data" (through the asset seam H1)
        let other_assets = root.join("other-assets");
        write_other_assets(&other_assets);
        let oth = root.join("tpl-other/data");
        std::fs::create_dir_all(&oth).unwrap();
        let r2 = start(&oth, 0, 0, Some(&other_assets), false);
        if !r2.ok {
            panic!("machinery: building the other-data prior state failed: {}", r2.error);
        }
        if std::fs::read_to_string(oth.join("facts/meta.json")).unwrap_or_default() == current_meta {
            panic!("machinery: the asset seam (hook H1) is not active: other data produced the current hash");
        }
        // mutation kinds of a rebuild over other data
        let tmp = root.join("tpl-other-log/data");
        copy_dir(&oth, &tmp);
        let r3 = start(&tmp, 0, 0, None, true);
        let kinds_other = r3.log.iter().map(|l| l.split(' ').nth(1).unwrap_or("").to_string()).collect();
        write_foreign_index(&root.join("tpl-foreign-index"));
        Fixtures { root, reference, current_meta, kinds, kinds_other, other_assets }
    })
}

const PRIORS: [&str; 16] = [
    "other-patch-version-other-index",
    "other-build-suffix-other-index",
    "absent",
    "current",
    "other-version",
    "other-data",
    "meta-missing",
    "meta-empty",
    "meta-braces",
    "meta-array",
    "meta-garbage",
    "index-missing",
    "index-without-tantivy-meta",
    "other-hash",
    // garbage that is not text at all, and a valid record followed by binary garbage (a directory
    // in the file's place was tried and dropped: the unchanged tool fails on it with EISDIR, but
    // the statement's list of states does not include it)
    "meta-binary",
    "meta-valid-then-binary",
];

/// meta.json contents that are well-formed JSON of the wrong shape or type (`@V@`/`@H@` stand for
/// the current version / hash). None of them is a valid record of a current index except the
/// last two, which a tool may either trust or rebuild from - the answers decide.
const META_SHAPES: [&str; 18] = [
    "null",
    "15",
    "true",
    "\"@V@\"",
    "[0, 1, 5]",
    "[\"@V@\", \"@H@\"]",
    "{\"version\": 15, \"database_hash\": \"@H@\"}",
    "{\"version\": [\"0\", \"1\"], \"database_hash\": \"@H@\"}",
    "{\"version\": {\"major\": 0}, \"database_hash\": \"@H@\"}",
    "{\"version\": \"@V@\", \"database_hash\": 12345}",
    "{\"version\": \"@V@\", \"database_hash\": null}",
    "{\"version\": null, \"database_hash\": \"@H@\"}",
    "{\"version\": \"@V@\"}",
    "{\"database_hash\": \"@H@\"}",
    "{\"version\": \"0.0.0\", \"version\": \"@V@\", \"database_hash\": \"@H@\"}",
    "{\"Version\": \"@V@\", \"DATABASE_HASH\": \"@H@\"}",
    "{\"version\": \"@V@\", \"database_hash\": \"@H@\", \"extra\": [1, 2, {\"a\": null}]}",
    " {\n  \"database_hash\" : \"@H@\" ,\n  \"version\" : \"@V@\"\n}\n",
];

/// Version strings another build of the same release could have recorded: textually different
/// from the current one, "the same" under a tolerant (numeric, metadata-dropping) comparison.
const FOREIGN_VERSIONS: [&str; 7] = ["@V@+nightly.3", "@V0@", " @V@ ", "@V@.0", "v@V@", "@V@-rc1", "0.0.1"];

/// An index directory as another build could have left it: same field names, another layout (the
/// `name` field under tantivy's default word tokenizer instead of prefix n-grams), some documents.
fn write_foreign_index(dir: &Path) {
    use tantivy::schema::{Schema, STORED, TEXT};
    let _ = std::fs::remove_dir_all(dir);
    std::fs::create_dir_all(dir).unwrap();
    let mut sb = Schema::builder();
    let f_data = sb.add_bytes_field("data", STORED);
    let f_name = sb.add_text_field("name", TEXT | STORED);
    let index = tantivy::Index::create_in_dir(dir, sb.build()).expect("create foreign index");
    let mut w = index.writer_with_num_threads(1, 15_000_000).expect("foreign index writer");
    for c in refdb::constants().iter().step_by(40) {
        let mut d = tantivy::Document::default();
        d.add_bytes(f_data, serde_cbor::to_vec(&c.raw).unwrap());
        for t in &c.tokens {
            d.add_text(f_name, t);
        }
        w.add_document(d).unwrap();
    }
    w.commit().unwrap();
    w.wait_merging_threads().unwrap();
}

fn make_prior(fx: &Fixtures, prior: &str, data: &Path) {
    let cur = fx.root.join("tpl-current/data");
    let meta = data.join("facts/meta.json");
    if let Some(rest) = prior.strip_prefix("foreign-layout-") {
        // written by another version: its own index layout under a version string close to ours,
        // recording either the current data hash or another one
        let (k, h) = rest.split_once('-').unwrap();
        let k: usize = k.parse().unwrap();
        let _ = std::fs::remove_dir_all(data);
        std::fs::create_dir_all(data.join("facts")).unwrap();
        copy_dir(&fx.root.join("tpl-foreign-index"), &data.join("facts/index"));
        let mut m: serde_json::Value = serde_json::from_str(&fx.current_meta).unwrap();
        let v = m["version"].as_str().unwrap_or("0.0.0").to_string();
        let mut parts: Vec<String> = v.split('.').map(|s| s.to_string()).collect();
        if parts.len() > 1 {
            parts[1] = format!("0{}", parts[1]);
        }
        m["version"] = serde_json::Value::String(FOREIGN_VERSIONS[k].replace("@V0@", &parts.join(".")).replace("@V@", &v));
        if h == "otherhash" {
            m["database_hash"] = serde_json::Value::String(format!("0{}", m["database_hash"].as_str().unwrap_or("")));
        }
        std::fs::write(&meta, serde_json::to_string(&m).unwrap()).unwrap();
        return;
    }
    match prior {
        "absent" => {
            let _ = std::fs::remove_dir_all(data);
            std::fs::create_dir_all(data).unwrap();
        }
        "other-data" => copy_dir(&fx.root.join("tpl-other/data"), data),
        "other-patch-version-other-index" | "other-build-suffix-other-index" => {
            // written by another version of the same release series: an index with other content
            // under a meta.json that carries the current data hash but another version string
            copy_dir(&fx.root.join("tpl-other/data"), data);
            let mut m: serde_json::Value = serde_json::from_str(&fx.current_meta).unwrap();
            let v = m["version"].as_str().unwrap_or("0.0.0").to_string();
            let other = if prior.starts_with("other-patch") {
                let mut parts: Vec<String> = v.split('.').map(|s| s.to_string()).collect();
                let last = parts.len() - 1;
                let n: u64 = parts[last].chars().take_while(|c| c.is_ascii_digit()).collect::<String>().parse().unwrap_or(0);
                parts[last] = format!("{}", n + 1);
                parts.join(".")
            } else {
                format!("{v}-rc1")
            };
            m["version"] = serde_json::Value::String(other);
            std::fs::write(&meta, serde_json::to_string(&m).unwrap()).unwrap();
        }
        p => {
            copy_dir(&cur, data);
            match p {
                "current" => {}
                "other-version" | "other-hash" => {
                    // edited as JSON, so that the layout of the file (compact, pretty-printed) does not matter
                    let mut m: serde_json::Value = serde_json::from_str(&fx.current_meta).unwrap();
                    let (key, pre) = if p == "other-version" { ("version", "9.") } else { ("database_hash", "0") };
                    m[key] = serde_json::Value::String(format!("{pre}{}", m[key].as_str().unwrap_or("")));
                    std::fs::write(&meta, serde_json::to_string(&m).unwrap()).unwrap()
                }
                "meta-missing" => std::fs::remove_file(&meta).unwrap(),
                "meta-empty" => std::fs::write(&meta, "").unwrap(),
                "meta-braces" => std::fs::write(&meta, "{}").unwrap(),
                "meta-array" => std::fs::write(&meta, "[]").unwrap(),
                "meta-garbage" => std::fs::write(&meta, "\u{0}\u{1}garbage{{").unwrap(),
                "meta-binary" => std::fs::write(&meta, [0xffu8, 0xfe, 0x00, 0x80, 0xc3, 0x28, 0xf0, 0x9f, 0x7b, 0x22]).unwrap(),
                "meta-valid-then-binary" => {
                    let mut b = fx.current_meta.clone().into_bytes();
                    b.extend_from_slice(&[0x0a, 0xff, 0xfe, 0x80]);
                    std::fs::write(&meta, b).unwrap()
                }
                "index-missing" => std::fs::remove_dir_all(data.join("facts/index")).unwrap(),
                "index-without-tantivy-meta" => std::fs::remove_file(data.join("facts/index/meta.json")).unwrap(),
                x if x.starts_with("meta-shape-") => {
                    let k: usize = x["meta-shape-".len()..].parse().unwrap();
                    let cur: serde_json::Value = serde_json::from_str(&fx.current_meta).unwrap();
                    let text = META_SHAPES[k].replace("@V@", cur["version"].as_str().unwrap_or("")).replace("@H@", cur["database_hash"].as_str().unwrap_or(""));
                    std::fs::write(&meta, text).unwrap();
                }
                x if x.starts_with("meta-shape-noindex-") => unreachable!(),
                x if x.starts_with("meta-prefix-") => {
                    let k: usize = x["meta-prefix-".len()..].parse().unwrap();
                    std::fs::write(&meta, &fx.current_meta.as_bytes()[..k.min(fx.current_meta.len())]).unwrap();
                }
                _ => panic!("unknown prior {p}"),
            }
        }
    }
}

/// If meta.json says "current", the index must be complete (all constants).
fn meta_current_implies_complete(fx: &Fixtures, data: &Path) -> Result<bool, String> {
    let meta = std::fs::read_to_string(data.join("facts/meta.json")).unwrap_or_default();
    let cur: serde_json::Value = serde_json::from_str(&fx.current_meta).unwrap();
    let got: serde_json::Value = match serde_json::from_str(&meta) {
        Ok(v) => v,
        Err(_) => return Ok(false),
    };
    if got["version"] != cur["version"] || got["database_hash"] != cur["database_hash"] {
        return Ok(false);
    }
    let index = tantivy::Index::open_in_dir(data.join("facts/index")).map_err(|e| format!("meta.json records the index as current but the index does not open: {e}"))?;
    let reader: tantivy::IndexReader = index.reader_builder().reload_policy(tantivy::ReloadPolicy::Manual).try_into().map_err(|e: tantivy::TantivyError| e.to_string())?;
    let n = reader.searcher().num_docs();
    let want = refdb::constants().len() as u64;
    if n != want {
        return Err(format!("meta.json records the index as current but the index holds {n} of {want} constants"));
    }
    Ok(true)
}

impl Prop for C15 {
    fn id(&self) -> &'static str {
        "C15"
    }
    fn level(&self) -> &'static str {
        "fault_enumeration"
    }
    fn cross_process_determinism(&self) -> bool {
        false
    }
    fn case_budget_s(&self) -> u64 {
        120
    }
    fn rule(&self) -> String {
        "prior directory states: absent; complete and current; written by another version (a foreign major version; the next patch version or a build suffix over an index with other content and the current data hash); written by another build with its own index layout (same field names, the name field under the default word tokenizer) under seven version strings close to the current one (build metadata, zero-padded, blank-padded, extra component, v-prefix, pre-release tag, another release) x {current data hash, another hash}; written for other data (built by the real code through the asset seam); other hash; meta.json missing / empty / {} / [] / garbage / bytes that are not UTF-8 / a valid record followed by such bytes / every proper prefix of the valid bytes / 18 well-formed JSON documents of the wrong shape or type (null, a number, a list, `version` a number / list / object, a numeric or null hash, a missing or duplicated key, keys in another case, extra fields, other whitespace and key order); index directory missing under a current meta.json; index directory without tantivy's own meta.json. Each prior state x two crash-free starts (family start). Crash enumeration (family crash): prior state x every crash point N = 1..N_max of the real start under the LD_PRELOAD shim (process SIGKILLed before its N-th file-system mutation; quick: absent, other-data, index-missing and index-without-tantivy-meta priors, every point; thorough: eight priors, every point, each write also torn after half and after all-but-one byte), then: meta.json current => index complete (opened independently with tantivy), then two crash-free starts that must answer the probe set exactly like Db::in_memory(). Thorough adds two-crash histories: from the absent prior every pair (n1, n2) with n1 <= 130 and n2 <= 140 (a start performs about 110-125 mutations), from the other-data prior every second n1 and n2; after the second kill the same two oracles apply. Non-trivial = the start performed at least one mutation before it was killed / a prior state other than `current`; distinct = distinct (prior, N, torn)".into()
    }
    fn assumptions(&self) -> Vec<String> {
        vec![
            "process-crash model: everything a completed syscall wrote is visible to the next process; no power-loss reordering".into(),
            "tantivy's atomic renames (tempfile -> rustix raw renameat) are invisible to LD_PRELOAD; each is bracketed by interposed calls (fdatasync of the temp file before, next open/write after), so no reachable directory state is skipped".into(),
            "crash point N is not perfectly reproducible while background threads write concurrently; the crashed directory itself is archived as the replay artefact".into(),
        ]
    }
    fn generate(&self, tier: Tier, sink: &mut dyn FnMut(Case)) {
        for p in PRIORS {
            sink(Case::with("start", format!("prior={p}"), serde_json::json!({"prior": p})));
        }
        for k in 0..80 {
            sink(Case::with("start", format!("prior=meta-prefix-{k}"), serde_json::json!({"prior": format!("meta-prefix-{k}")})));
        }
        for k in 0..META_SHAPES.len() {
            sink(Case::with("start", format!("prior=meta-shape-{k}"), serde_json::json!({"prior": format!("meta-shape-{k}")})));
        }
        for k in 0..FOREIGN_VERSIONS.len() {
            for h in ["samehash", "otherhash"] {
                sink(Case::with("start", format!("prior=foreign-layout-{k}-{h}"), serde_json::json!({"prior": format!("foreign-layout-{k}-{h}")})));
            }
        }
        let crash_priors: Vec<&str> = match tier {
            Tier::Quick => vec!["absent", "other-data", "index-without-tantivy-meta", "index-missing"],
            Tier::Thorough => vec!["absent", "other-data", "current-stale-hash", "other-version", "meta-garbage", "index-without-tantivy-meta", "index-missing", "meta-missing"],
        };
        for p in &crash_priors {
            for n in 1..=NCAP {
                sink(Case::with("crash", format!("prior={p} crash_at={n}"), serde_json::json!({"prior": p, "n": n, "torn": 0})));
                if tier == Tier::Thorough {
                    for t in [1, 2] {
                        sink(Case::with("crash-torn", format!("prior={p} crash_at={n} torn={t}"), serde_json::json!({"prior": p, "n": n, "torn": t})));
                    }
                }
            }
        }
        if tier == Tier::Thorough {
            // every pair of crash points: a start killed at n1, the next start killed at n2 (a start
            // performs about 110-125 mutations; points beyond the last one are counted, not judged)
            for n1 in 1..=DOUBLE_N1 {
                for n2 in 1..=DOUBLE_N2 {
                    sink(Case::with("double-crash", format!("prior=absent crash_at={n1} then crash_at={n2}"), serde_json::json!({"prior": "absent", "n": n1, "n2": n2, "torn": 0})));
                }
            }
            for n1 in (1..=DOUBLE_N1).step_by(2) {
                for n2 in (1..=DOUBLE_N2).step_by(2) {
                    sink(Case::with("double-crash", format!("prior=other-data crash_at={n1} then crash_at={n2}"), serde_json::json!({"prior": "other-data", "n": n1, "n2": n2, "torn": 0})));
                }
            }
        }
    }
    fn check(&self, env: &mut Env, case: &Case) -> Verdict {
        let fx = fixtures(env);
        let work = fx.root.join("case");
        let data = work.join("data");
        let _ = std::fs::remove_dir_all(&work);
        std::fs::create_dir_all(&work).unwrap();
        let prior = case.data["prior"].as_str().unwrap();
        let prior_real = if prior == "current-stale-hash" { "other-hash" } else { prior };
        make_prior(fx, prior_real, &data);
        let archive = |why: &str| -> String {
            let dir = fw::verif_dir().join("replays/C15").join(format!("{:016x}", fw::hash_str(&case.key)));
            copy_dir(&data, &dir.join("data"));
            let _ = std::fs::write(dir.join("why.txt"), format!("{}\n{}\n", case.key, why));
            dir.display().to_string()
        };
        let mut nontrivial = prior != "current";
        if case.fam != "start" {
            let n = case.data["n"].as_u64().unwrap() as usize;
            let torn = case.data["torn"].as_u64().unwrap() as usize;
            let kinds = if prior == "absent" { &fx.kinds } else { &fx.kinds_other };
            let kind = kinds.get(n - 1).map(|s| s.as_str()).unwrap_or("");
            if torn > 0 && !kind.contains("write") {
                return Verdict::DontCare("torn variant of a non-write point");
            }
            let r = start(&data, n, torn, None, true);
            if !r.killed {
                if r.ok {
                    return Verdict::DontCare("crash point beyond the last mutation of this start");
                }
                return fw::fail(format!("start-failed-under-shim:{prior}"), format!("{}: start failed without being killed: {}", case.key, r.error));
            }
            nontrivial = true;
            // never "current" before complete — judged where the prior state
            // did not already carry a current meta.json over a damaged index
            // (there the run has recorded nothing; what matters is recovery)
            let prior_already_inconsistent = matches!(prior, "index-missing" | "index-without-tantivy-meta");
            if prior_already_inconsistent {
                // fall through to the recovery oracle
            } else if let Err(why) = meta_current_implies_complete(fx, &data) {
                let a = archive(&why);
                return fw::fail(format!("current-before-complete:{prior}"), format!("{}: {why} (directory archived at {a}; last mutation before the kill: {:?})", case.key, r.log.last()));
            }
            if let Some(n2) = case.data.get("n2").and_then(|v| v.as_u64()) {
                let r2 = start(&data, n2 as usize, 0, None, true);
                if r2.killed {
                    if let Err(why) = meta_current_implies_complete(fx, &data) {
                        let a = archive(&why);
                        return fw::fail(format!("current-before-complete:{prior}:second-crash"), format!("{}: {why} (archived at {a})", case.key));
                    }
                } else if !r2.ok {
                    let a = archive(&r2.error);
                    return fw::fail(format!("recovery-failed:{prior}:second"), format!("{}: second start failed: {} (archived at {a})", case.key, r2.error));
                }
            }
        }
        // crash-free starts must answer like the in-memory database
        for round in 0..2 {
            let before = if round == 0 { Some(archive_tmp(&data, &work)) } else { None };
            let r = start(&data, 0, 0, None, false);
            if !r.ok {
                if let Some(b) = &before {
                    copy_dir(b, &data);
                }
                let a = archive(&r.error);
                return fw::fail(format!("recovery-failed:{}", prior.split("-prefix-").next().unwrap()), format!("{}: crash-free start #{round} failed: {} (directory before the start archived at {a})", case.key, r.error));
            }
            if r.answers != fx.reference {
                let k = r.answers.iter().zip(fx.reference.iter()).position(|(a, b)| a != b).unwrap_or(0);
                if let Some(b) = &before {
                    copy_dir(b, &data);
                }
                let a = archive("answers differ");
                return fw::fail(
                    format!("wrong-answers:{}", prior.split("-prefix-").next().unwrap()),
                    format!("{}: crash-free start #{round} answers probe {:?} with [{}]; a fresh in-memory database answers [{}] (directory before the start archived at {a})", case.key, probes().get(k), r.answers.get(k).cloned().unwrap_or_default(), fx.reference.get(k).cloned().unwrap_or_default()),
                );
            }
            if let Err(why) = meta_current_implies_complete(fx, &data) {
                return fw::fail(format!("current-before-complete:{prior}:after-start"), format!("{}: {why}", case.key));
            }
        }
        env.bulk_evals += 2;
        let _ = std::fs::remove_dir_all(&work);
        fw::pass(nontrivial, fw::hash_str(prior))
    }
    fn bounds(&self, tier: Tier) -> serde_json::Value {
        serde_json::json!({"crash_points_cap": NCAP, "prior_states": PRIORS.len() + 80 + META_SHAPES.len() + 2 * FOREIGN_VERSIONS.len(), "crash_priors": tier.pick(4, 8), "torn_variants": tier.pick(0, 2), "second_crash": tier == Tier::Thorough, "two_crash_pairs": if tier == Tier::Thorough { DOUBLE_N1 * DOUBLE_N2 + (DOUBLE_N1 / 2) * (DOUBLE_N2 / 2) } else { 0 }})
    }
}

fn archive_tmp(data: &Path, work: &Path) -> PathBuf {
    let b = work.join("before");
    copy_dir(data, &b);
    b
}
