//! C03 — unit conversion preserves the physical quantity.

use crate::fw::{self, Case, Env, Prop, Tier, Verdict};
use crate::obs::{self, pow10, rpow, Res};
use crate::refcalc::ref_decimal;
use crate::tables::{self, Affine, Dim, PREFIXES, UNITS};
use crate::units;
use num::{BigInt, BigRational};

pub struct C03;

const MAGS: [&str; 5] = ["1", "0.75", "1e-3", "12345.678", "-2"];
/// thorough tier only
const MAGS_MORE: [&str; 7] = ["0", "1e30", "1e-30", "-0.001", "123456789.987654321", "3", "-7.5e5"];

fn first_name(u: &tables::UnitDef) -> Option<&'static str> {
    u.names.iter().find(|n| tables::typeable(n)).copied()
}

/// commensurability classes: dim -> unit names (first typeable name each)
fn classes() -> Vec<(Dim, Vec<&'static str>)> {
    let mut out: Vec<(Dim, Vec<&'static str>)> = Vec::new();
    for u in UNITS {
        if u.affine != Affine::None {
            continue;
        }
        let n = match first_name(u) {
            Some(n) => n,
            None => continue,
        };
        match out.iter_mut().find(|(d, _)| *d == u.dim) {
            Some((_, v)) => v.push(n),
            None => out.push((u.dim, vec![n])),
        }
    }
    out
}

fn single_reading(w: &str) -> bool {
    tables::find_by_name(w).is_some() || units::readings(w).len() == 1
}

impl Prop for C03 {
    fn id(&self) -> &'static str {
        "C03"
    }
    fn rule(&self) -> String {
        "families: pfxpow (every prefix symbol x every power -3..3 on an SI core, as source, as target and prefix-to-prefix), direct (every ordered pair of unit names inside each commensurability class of the table x 5 magnitudes), prefix-src/prefix-tgt (every prefix spelling on a 30-unit core, single-reading words only: x <P>u to u = x*10^p exactly), power (a^n to b^n, n in -3..3, all class pairs), composite (products/quotients of 2-4 pairwise commensurable factors: km/h->m/s, kW*h->J, lb*ft/s^2->N, ...), and the table-free laws evaluated on the real code only: round trip ((x a to b) to a = x), via ((x a to c) to b = x a to b for all triples per class) and chain (x a to c to b, unparenthesised); composites that name the same units on both sides with the powers distributed differently (ft*in^2 to ft^2*in), scaling ((k x) a to b = k (x a to b)). Table oracle: SI value and dimensions preserved and the result is expressed in the target unit. Non-trivial = source and target differ; distinct = distinct query strings".into()
    }
    fn assumptions(&self) -> Vec<String> {
        vec!["unit scales from the independent table (documented meanings); the table-free laws need no table".into(), "offset scales are C09's subject".into()]
    }
    fn generate(&self, tier: Tier, sink: &mut dyn FnMut(Case)) {
        let cl = classes();
        for (_, names) in &cl {
            for a in names {
                for b in names {
                    for x in MAGS {
                        sink(Case::with("direct", format!("{x} {a} to {b}"), serde_json::json!({"x": x, "a": a, "b": b})));
                    }
                    if tier == Tier::Thorough {
                        for x in MAGS_MORE {
                            sink(Case::with("direct", format!("{x} {a} to {b}"), serde_json::json!({"x": x, "a": a, "b": b})));
                        }
                    }
                    sink(Case::with("roundtrip", format!("(7.5 {a} to {b}) to {a}"), serde_json::json!({"x": "7.5", "a": a, "b": b})));
                    sink(Case::with("scaling", format!("3 {a} to {b}"), serde_json::json!({"a": a, "b": b})));
                    let pows: &[i64] = if tier == Tier::Thorough { &[-5, -4, -3, -2, -1, 2, 3, 4, 5] } else { &[-3, -2, -1, 2, 3] };
                    for n in pows.iter().copied() {
                        sink(Case::with("power", format!("5 {a}^{n} to {b}^{n}"), serde_json::json!({"x": "5", "a": format!("{a}^{n}"), "b": format!("{b}^{n}")})));
                    }
                }
            }
            // via: all triples (quick: classes up to 8 names fully, larger ones with a 6-name core as intermediate)
            let mids: Vec<&&str> = match tier {
                Tier::Quick => names.iter().take(6).collect(),
                Tier::Thorough => names.iter().collect(),
            };
            for a in names {
                for b in names {
                    for c in &mids {
                        sink(Case::with("via", format!("(7.5 {a} to {c}) to {b}"), serde_json::json!({"a": a, "b": b, "c": c})));
                        // the same without parentheses: a chain of casts
                        sink(Case::with("chain", format!("7.5 {a} to {c} to {b}"), serde_json::json!({"a": a, "b": b, "c": c})));
                    }
                }
            }
        }
        // prefixes
        let core: Vec<&'static str> = UNITS.iter().filter(|u| u.affine == Affine::None).filter_map(first_name).take(tier.pick(30, 90)).collect();
        for u in &core {
            for (sym, long, _) in PREFIXES {
                for p in [sym, long] {
                    let w = format!("{p}{u}");
                    if !tables::typeable(&w) || !single_reading(&w) || tables::find_by_name(&w).is_some() {
                        continue;
                    }
                    for x in ["1", "0.75", "-2"] {
                        sink(Case::with("prefix-src", format!("{x} {w} to {u}"), serde_json::json!({"x": x, "a": w, "b": u})));
                        sink(Case::with("prefix-tgt", format!("{x} {u} to {w}"), serde_json::json!({"x": x, "a": u, "b": w})));
                    }
                }
            }
        }
        // prefix x power: every prefix symbol on an SI core, raised to every power -3..3, as source,
        // as target, and prefix-to-prefix (an SI prefix is exactly its power of ten *under powers too*)
        let si_core = ["m", "s", "g", "l", "N", "J", "W", "A", "V", "B"];
        let syms: Vec<&str> = PREFIXES.iter().map(|p| p.0).collect();
        // thorough: every non-offset unit name of the table, not only the SI core
        let all_units: Vec<&'static str> = UNITS.iter().filter(|u| u.affine == Affine::None).filter_map(first_name).collect();
        let pp_units: Vec<&str> = if tier == Tier::Thorough {
            let mut v: Vec<&str> = si_core.to_vec();
            v.extend(all_units.iter().copied().filter(|u| !si_core.contains(u)));
            v
        } else {
            // quick: six of the SI core plus two units that carry a conversion factor
            si_core.iter().take(6).copied().chain(["btu", "ft"]).collect()
        };
        for u in pp_units.iter() {
            for p in &syms {
                let w = format!("{p}{u}");
                if !tables::typeable(&w) || !single_reading(&w) || tables::find_by_name(&w).is_some() {
                    continue;
                }
                for n in [-3i64, -2, -1, 1, 2, 3] {
                    let (wa, ua) = (format!("{w}^{n}"), format!("{u}^{n}"));
                    sink(Case::with("pfxpow-src", format!("3 {wa} to {ua}"), serde_json::json!({"x": "3", "a": wa, "b": ua, "w": w})));
                    sink(Case::with("pfxpow-tgt", format!("3 {ua} to {wa}"), serde_json::json!({"x": "3", "a": ua, "b": wa, "w": w})));
                    if *u == "m" || *u == "s" || (tier == Tier::Thorough && si_core.contains(u)) {
                        for q in &syms {
                            let w2 = format!("{q}{u}");
                            if q == p || !tables::typeable(&w2) || !single_reading(&w2) || tables::find_by_name(&w2).is_some() {
                                continue;
                            }
                            let wb = format!("{w2}^{n}");
                            sink(Case::with("pfxpow-both", format!("3 {wa} to {wb}"), serde_json::json!({"x": "3", "a": wa, "b": wb, "w": w, "w2": w2})));
                        }
                    }
                }
            }
        }
        // composites: factor lists per position, pairwise commensurable
        let len = ["m", "km", "ft", "mi", "in"];
        let time = ["s", "h", "min", "dy"];
        let mass = ["kg", "lb", "g", "oz"];
        let energy = ["J", "kWh", "btu", "eV"];
        let power = ["W", "kW"];
        let mut comp: Vec<(String, String)> = Vec::new();
        for a in len {
            for b in len {
                for s in time {
                    for t in time {
                        comp.push((format!("{a}/{s}"), format!("{b}/{t}")));
                        comp.push((format!("{a}/{s}^2"), format!("{b}/{t}^2")));
                        for m in mass {
                            for n in mass {
                                if tier == Tier::Thorough || (a == "ft" || b == "m") && (s == "s" || t == "h") {
                                    comp.push((format!("{m}*{a}/{s}^2"), format!("{n}*{b}/{t}^2")));
                                    comp.push((format!("{m}*{a}^2/{s}^2"), format!("{n}*{b}^2/{t}^2")));
                                }
                            }
                        }
                    }
                }
            }
        }
        for e in energy {
            for f in energy {
                comp.push((e.to_string(), f.to_string()));
                for s in time {
                    for p in power {
                        comp.push((format!("{e}/{s}"), p.to_string()));
                        comp.push((format!("{p}*{s}"), f.to_string()));
                    }
                }
            }
        }
        for m in mass {
            for a in len {
                for s in time {
                    comp.push((format!("{m}*{a}/{s}^2"), "N".to_string()));
                    comp.push(("N".to_string(), format!("{m}*{a}/{s}^2")));
                    comp.push((format!("{m}*{a}^2/{s}^2"), "J".to_string()));
                    comp.push((format!("{m}/{a}*{s}^2"), "Pa".to_string()));
                    comp.push((format!("{m}/{a}/{s}^2"), "Pa".to_string()));
                    comp.push((format!("{m}*{a}^2/{s}^3"), "W".to_string()));
                }
            }
        }
        // the same unit names on both sides, powers distributed differently (ft*in^2 vs ft^2*in)
        for (_, names) in &cl {
            let k: Vec<&&str> = names.iter().take(5).collect();
            for u in &k {
                for v in &k {
                    if u != v {
                        comp.push((format!("{u}*{v}^2"), format!("{u}^2*{v}")));
                        comp.push((format!("{u}^2/{v}"), format!("{v}^2/{u}")));
                        comp.push((format!("{u}^3/{v}^2"), format!("{v}^3/{u}^2")));
                    }
                }
            }
        }
        // ratios of commensurable units: no dimension left, but a scale (min/hr is 1/60, ft/mi 1/5280);
        // every ordered pair converts by the ratio of the two scales
        // (one unit under two prefixes, `m/km`, is refused by the tool and not a C03 matter)
        let ratios = ["min/hr", "s/hr", "min/s", "ft/mi", "in/ft", "yd/mi", "l/m^3", "Bq*s", "kBq*ms", "J/N/m"];
        for a in ratios {
            for b in ratios {
                if a != b {
                    comp.push((a.to_string(), b.to_string()));
                }
            }
        }
        // a prefixed unit that cancels half-way through an expression and comes back with its
        // power (`km/km^2` is km^-1, not m^-1), in both directions
        for p in ["", "k", "m", "c", "M", "n"] {
            for u in ["m", "s", "g", "N", "W", "l"] {
                if p.is_empty() && u != "g" {
                    continue;
                }
                let w = format!("{p}{u}");
                for (a, b) in [(format!("{w}/{w}^2"), format!("{u}^-1")), (format!("{w}^-1*{w}^2"), u.to_string()), (format!("{w}/{w}^3"), format!("{u}^-2")), (format!("{w}^2/{w}^2*{w}"), format!("{u}^-1")), (format!("J*{w}/{w}^2"), format!("J/{u}"))] {
                    comp.push((a.clone(), b.clone()));
                    comp.push((b, a));
                }
            }
        }
        comp.sort();
        comp.dedup();
        for (a, b) in comp {
            for x in ["1", "12345.678"] {
                sink(Case::with("composite", format!("{x} {a} to {b}"), serde_json::json!({"x": x, "a": a, "b": b})));
            }
        }
    }
    fn check(&self, env: &mut Env, case: &Case) -> Verdict {
        let q = &case.key;
        let a = case.data["a"].as_str().unwrap();
        let b = case.data["b"].as_str().unwrap();
        let shape = |s: &str| if s.contains('*') || s.contains('/') || s.contains('^') { "compound" } else { "word" };
        let sig = |what: &str| format!("{}:{what}:{}:{}", case.fam, shape(a), shape(b));
        let ma = units::unit_expr(a);
        let mb = units::unit_expr(b);
        let (ma, mb) = match (ma, mb) {
            (Some(x), Some(y)) => (x, y),
            _ => return Verdict::DontCare("no reference reading"),
        };
        if case.fam.starts_with("prefix-") {
            let w = if case.fam == "prefix-src" { a } else { b };
            if crate::props::c05::misread_by_lexer(env, w) {
                return Verdict::DontCare("word misread by the unit lexer (C05's recorded finding)");
            }
        }
        if case.fam.starts_with("pfxpow-") {
            for k in ["w", "w2"] {
                if let Some(w) = case.data[k].as_str() {
                    if crate::props::c05::misread_by_lexer(env, w) {
                        return Verdict::DontCare("word misread by the unit lexer (C05's recorded finding)");
                    }
                }
            }
        }
        let got = match obs::eval_one(env.db(), q) {
            Ok(r) => r,
            Err(why) => return fw::fail(sig("results"), format!("{q}: {why}")),
        };
        if let Res::Err { .. } = &got {
            if obs::rejected_unit_word(env.db(), q).is_some() {
                return Verdict::DontCare("unit word rejected by the tool");
            }
        }
        if ma.dim != mb.dim {
            // e.g. `g/m/s^2`: `/` inverts everything after it, so this is g*s^2/m
            return match &got {
                Res::Err { .. } => fw::pass(true, 2),
                Res::Ok { .. } => fw::fail(sig("accepted"), format!("{q}: [{}] to [{}] is not commensurable but the tool returned {}", tables::dim_text(&ma.dim), tables::dim_text(&mb.dim), got.short())),
            };
        }
        let (value, unit, text) = match &got {
            Res::Ok { value, unit, unit_text } => (value, unit, unit_text),
            Res::Err { msg, .. } => return fw::fail(sig("refused"), format!("{q}: commensurable conversion refused: {msg}")),
        };
        let si = match units::si_of(value, unit, false) {
            Ok(s) => s,
            Err(e) => return crate::units::table_verdict(format!("{q}: {e}")),
        };
        let nontrivial = a != b;
        let int = |n: i64| BigRational::from_integer(BigInt::from(n));
        match case.fam {
            "direct" | "prefix-src" | "prefix-tgt" | "power" | "composite" | "pfxpow-src" | "pfxpow-tgt" | "pfxpow-both" => {
                let x = ref_decimal(case.data["x"].as_str().unwrap()).unwrap();
                let want = x * &ma.scale;
                if si.dim != mb.dim || si.value != want {
                    return fw::fail(sig("value"), format!("{q}: expected SI {} [{}], got {} (displayed {})", want, tables::dim_text(&ma.dim), si.short(), got.short()));
                }
                // expressed in the target unit, as the tool itself reads it
                if let Ok(Res::Ok { unit: bu, unit_text: bt, .. }) = obs::eval_one(env.db(), &format!("1 {b}")) {
                    if &bu != unit {
                        return fw::fail(sig("not-in-target-unit"), format!("{q}: result is in [{text}], the target reads as [{bt}]"));
                    }
                }
                if case.fam == "prefix-src" {
                    // an SI prefix is exactly its power of ten: value in the bare unit
                    let p = units::word_reading(a).and_then(|r| r.first().map(|e| e.0)).unwrap_or(0);
                    let x = ref_decimal(case.data["x"].as_str().unwrap()).unwrap();
                    if *value != x * pow10(p as i64) {
                        return fw::fail(sig("prefix-power"), format!("{q}: expected exactly x*10^{p}, got {value}"));
                    }
                }
                fw::pass(nontrivial, fw::hash_str(&si.short()))
            }
            "roundtrip" => {
                let x = ref_decimal(case.data["x"].as_str().unwrap()).unwrap();
                if *value != x {
                    return fw::fail(sig("value"), format!("{q}: there and back must return {x} exactly, got {value} [{text}]"));
                }
                if si.value != x * &ma.scale || si.dim != ma.dim {
                    return fw::fail(sig("unit"), format!("{q}: result is not in the original unit: {}", got.short()));
                }
                fw::pass(nontrivial, fw::hash_str(&si.short()))
            }
            "via" | "chain" => {
                // (x a to c) to b  ==  x a to b, both evaluated by the tool
                let direct = obs::eval_one(env.db(), &format!("7.5 {a} to {b}"));
                match direct {
                    Ok(Res::Ok { value: dv, unit: du, .. }) => {
                        if &dv != value || &du != unit {
                            return fw::fail(sig("differs"), format!("{q} = {} but the direct conversion gives {dv}", got.short()));
                        }
                        fw::pass(nontrivial, fw::hash_str(&si.short()))
                    }
                    other => fw::fail(sig("direct-failed"), format!("direct conversion `7.5 {a} to {b}` gave {other:?}")),
                }
            }
            "scaling" => {
                // (3 x) a to b == 3 * (x a to b) for x = 1
                let one = obs::eval_one(env.db(), &format!("1 {a} to {b}"));
                match one {
                    Ok(Res::Ok { value: v1, unit: u1, .. }) => {
                        if &(v1.clone() * int(3)) != value || &u1 != unit {
                            return fw::fail(sig("nonlinear"), format!("{q} = {value} but 3 * (1 {a} to {b}) = {}", v1 * int(3)));
                        }
                        fw::pass(nontrivial, fw::hash_str(&si.short()))
                    }
                    other => fw::fail(sig("unit-failed"), format!("`1 {a} to {b}` gave {other:?}")),
                }
            }
            _ => unreachable!(),
        }
    }
    fn bounds(&self, tier: Tier) -> serde_json::Value {
        let cl = classes();
        serde_json::json!({"classes": cl.len(), "largest_class": cl.iter().map(|c| c.1.len()).max(), "prefix_core": tier.pick(30, 90), "powers": "-3..3"})
    }
}

#[allow(dead_code)]
fn unused(_: fn(&BigRational, i64) -> Option<BigRational>) {
    let _ = rpow;
}
