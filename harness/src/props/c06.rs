//! C06 — operator precedence, associativity, grouping and blanks.

use crate::exprcheck::{judge_text, Judged};
use crate::fw::{self, Case, Env, Prop, Tier, Verdict};
use crate::obs::{self, Res};
use crate::props::c01::{shapes, Shape};
use crate::refcalc::{self, bin, from_json, num, paren, qty, ref_eval, to, to_json, Expr, Op, RefVal};
use num::BigRational;

pub struct C06;

const OPERANDS: [&str; 7] = ["2", "3", "5", "7", "11", "13", "17"];

#[derive(Clone, Debug, PartialEq)]
enum T {
    Num(String),
    Unit(String),
    Op(&'static str),
    To,
    L,
    R,
    Comma,
    Fn(&'static str),
}

impl T {
    fn text(&self) -> String {
        match self {
            T::Num(s) | T::Unit(s) => s.clone(),
            T::Op(s) => s.to_string(),
            T::To => "to".into(),
            T::L => "(".into(),
            T::R => ")".into(),
            T::Comma => ",".into(),
            T::Fn(s) => s.to_string(),
        }
    }
}

#[derive(Clone, Copy, PartialEq, Debug)]
enum Gap {
    /// no blank allowed to vary (function name directly before its parenthesis)
    Fixed,
    /// zero or more blanks
    Optional,
    /// one or more blanks
    Required,
}

// The first four / three alternatives are the homogeneous gaps (used by the
// uniform layouts and the all-combinations family); the rest mix blank kinds
// inside one gap and are reached by the 1- and 2-slot deviations.
const OPT: [&str; 7] = ["", " ", "  ", "\t", " \t", "\t ", "  \t "];
const REQ: [&str; 6] = [" ", "  ", "\t", " \t", "\t ", "  \t "];
const OPT_HOMOGENEOUS: usize = 4;
const REQ_HOMOGENEOUS: usize = 3;

fn gap(a: Option<&T>, b: Option<&T>) -> Gap {
    match (a, b) {
        (None, _) | (_, None) => Gap::Optional,
        (Some(T::Fn(_)), Some(T::L)) => Gap::Fixed,
        (Some(T::Num(_)), Some(T::Unit(_))) => Gap::Optional,
        // two unit words next to each other multiply; without a blank they would be one word
        (Some(T::Unit(_)), Some(T::Unit(_))) => Gap::Required,
        (_, Some(T::To)) | (Some(T::To), _) => Gap::Required,
        (_, Some(T::Op("+" | "-"))) | (Some(T::Op("+" | "-")), _) => Gap::Required,
        // directly after a unit the unit grammar would swallow `* / ^`
        (Some(T::Unit(_)), Some(T::Op(_))) => Gap::Required,
        _ => Gap::Optional,
    }
}

fn gaps(toks: &[T]) -> Vec<Gap> {
    let mut g = Vec::with_capacity(toks.len() + 1);
    for i in 0..=toks.len() {
        let a = if i == 0 { None } else { toks.get(i - 1) };
        g.push(gap(a, toks.get(i)));
    }
    g
}

fn alts(g: Gap) -> &'static [&'static str] {
    match g {
        Gap::Fixed => &[""],
        Gap::Optional => &OPT,
        Gap::Required => &REQ,
    }
}

/// Uniform layout `u` (0 = minimal, 1 = one blank, 2 = two blanks, 3 = tab).
fn uniform(g: &[Gap], u: usize) -> Vec<usize> {
    g.iter()
        .map(|g| match g {
            Gap::Fixed => 0,
            Gap::Optional => u,
            Gap::Required => u.saturating_sub(1).min(2),
        })
        .collect()
}

fn render(toks: &[T], g: &[Gap], choice: &[usize]) -> String {
    let mut s = String::new();
    for i in 0..=toks.len() {
        s.push_str(alts(g[i])[choice[i]]);
        if i < toks.len() {
            s.push_str(&toks[i].text());
        }
    }
    s
}

fn prio(e: &Expr) -> u8 {
    match e {
        Expr::Bin(_, op, _) => op.prio(),
        Expr::To(..) => 1,
        _ => 100,
    }
}

/// Tokens of a tree; `full` parenthesises every inner node, otherwise only
/// where the documented table needs it (left-to-right within a level).
/// `pow2` renders `^` as `**`.
fn tokens(e: &Expr, full: bool, pow2: bool, out: &mut Vec<T>) {
    match e {
        Expr::Num(s) => out.push(T::Num(s.clone())),
        Expr::Qty(l, u) => {
            out.push(T::Num(l.clone()));
            out.push(T::Unit(u.clone()));
        }
        Expr::Leaf(s, _) => out.push(T::Unit(s.clone())),
        Expr::Paren(a) => {
            out.push(T::L);
            tokens(a, full, pow2, out);
            out.push(T::R);
        }
        Expr::To(a, u) => {
            tokens(a, full, pow2, out);
            out.push(T::To);
            out.push(T::Unit(u.clone()));
        }
        Expr::Bin(a, op, b) => {
            let p = op.prio();
            let wrap_l = !matches!(**a, Expr::Paren(_)) && (if full { prio(a) < 100 } else { prio(a) < p });
            let wrap_r = !matches!(**b, Expr::Paren(_)) && (if full { prio(b) < 100 } else { prio(b) <= p });
            if wrap_l {
                out.push(T::L);
            }
            tokens(a, full, pow2, out);
            if wrap_l {
                out.push(T::R);
            }
            out.push(T::Op(match (op, pow2) {
                (Op::Pow, true) => "**",
                _ => op.text(),
            }));
            if wrap_r {
                out.push(T::L);
            }
            tokens(b, full, pow2, out);
            if wrap_r {
                out.push(T::R);
            }
        }
    }
}

fn build(shape: &Shape, leaves: &[Expr], ops: &[Op], li: &mut usize, oi: &mut usize) -> Expr {
    match shape {
        Shape::Leaf => {
            let e = leaves[*li].clone();
            *li += 1;
            e
        }
        Shape::Node(a, b) => {
            let l = build(a, leaves, ops, li, oi);
            let op = ops[*oi];
            *oi += 1;
            let r = build(b, leaves, ops, li, oi);
            bin(l, op, r)
        }
    }
}

/// The tree the documented table prescribes for an unparenthesised
/// operand/operator sequence: higher priority binds tighter, left to right
/// within a level.
pub fn table_tree(leaves: &[Expr], ops: &[Op]) -> Expr {
    fn climb(leaves: &[Expr], ops: &[Op], pos: &mut usize, min: u8) -> Expr {
        let mut lhs = leaves[*pos].clone();
        while *pos < ops.len() && ops[*pos].prio() >= min {
            let op = ops[*pos];
            *pos += 1;
            let rhs = climb(leaves, ops, pos, op.prio() + 1);
            lhs = bin(lhs, op, rhs);
        }
        lhs
    }
    let mut pos = 0;
    climb(leaves, ops, &mut pos, 0)
}

pub fn for_each_ops(k: usize, f: &mut dyn FnMut(&[Op])) {
    let mut idx = vec![0usize; k];
    loop {
        let ops: Vec<Op> = idx.iter().map(|i| Op::ALL[*i]).collect();
        f(&ops);
        let mut i = k;
        loop {
            if i == 0 {
                return;
            }
            i -= 1;
            idx[i] += 1;
            if idx[i] < 5 {
                break;
            }
            idx[i] = 0;
            if i == 0 {
                return;
            }
        }
    }
}

/// Is the tree inside the judged domain (defined or prescribed error)?
fn judged(e: &Expr) -> bool {
    !matches!(ref_eval(e), RefVal::DontCare(_))
}

fn emit(fam: &'static str, key: String, tree: &Expr, wrap: Option<&str>, sink: &mut dyn FnMut(Case)) {
    let data = serde_json::json!({"tree": to_json(tree), "wrap": wrap});
    sink(Case::with(fam, key.replace('\t', "\\t"), data));
}

/// Blank runs with blanks beyond space and tab (the tool takes every Unicode white-space character
/// for a blank): alone, after and before an ASCII blank, and two of them.
const UNI_BLANKS: [&str; 5] = ["\u{a0}", " \u{a0}", "\u{a0} ", "\t\u{2003}", "\u{2009}\u{a0}"];

fn render_over(toks: &[T], g: &[Gap], choice: &[usize], over: &[(usize, &str)]) -> String {
    let mut s = String::new();
    for i in 0..=toks.len() {
        match over.iter().find(|o| o.0 == i) {
            Some(o) => s.push_str(o.1),
            None => s.push_str(alts(g[i])[choice[i]]),
        }
        if i < toks.len() {
            s.push_str(&toks[i].text());
        }
    }
    s
}

fn emit_layouts(fam_dev: &'static str, toks: &[T], tree: &Expr, wrap: Option<&str>, uniform_on: bool, dev: usize, sink: &mut dyn FnMut(Case)) {
    let g = gaps(toks);
    if dev >= 1 {
        // one gap (two for dev >= 2) of the one-blank layout replaced by a run with other blank kinds
        let base = uniform(&g, 1);
        for i in 0..g.len() {
            if g[i] == Gap::Fixed {
                continue;
            }
            for a in UNI_BLANKS {
                emit("layout-uni", render_over(toks, &g, &base, &[(i, a)]), tree, wrap, sink);
                if dev >= 2 {
                    for j in (i + 1)..g.len() {
                        if g[j] == Gap::Fixed {
                            continue;
                        }
                        for b in UNI_BLANKS {
                            emit("layout-uni", render_over(toks, &g, &base, &[(i, a), (j, b)]), tree, wrap, sink);
                        }
                    }
                }
            }
        }
    }
    for u in 0..4 {
        let base = uniform(&g, u);
        if uniform_on {
            emit("layout-uniform", render(toks, &g, &base), tree, wrap, sink);
        }
        if dev >= 1 {
            for i in 0..g.len() {
                for a in 0..alts(g[i]).len() {
                    if a == base[i] {
                        continue;
                    }
                    let mut c = base.clone();
                    c[i] = a;
                    emit(fam_dev, render(toks, &g, &c), tree, wrap, sink);
                    if dev >= 2 {
                        for j in (i + 1)..g.len() {
                            for b in 0..alts(g[j]).len() {
                                if b == base[j] {
                                    continue;
                                }
                                let mut c2 = c.clone();
                                c2[j] = b;
                                emit("layout-dev2", render(toks, &g, &c2), tree, wrap, sink);
                            }
                        }
                    }
                }
            }
        }
    }
}

fn homogeneous(g: Gap) -> usize {
    match g {
        Gap::Fixed => 1,
        Gap::Optional => OPT_HOMOGENEOUS,
        Gap::Required => REQ_HOMOGENEOUS,
    }
}

fn emit_all_layouts(toks: &[T], tree: &Expr, sink: &mut dyn FnMut(Case)) {
    let g = gaps(toks);
    let mut c = vec![0usize; g.len()];
    loop {
        emit("layout-all", render(toks, &g, &c), tree, None, sink);
        let mut i = g.len();
        loop {
            if i == 0 {
                return;
            }
            i -= 1;
            c[i] += 1;
            if c[i] < homogeneous(g[i]) {
                break;
            }
            c[i] = 0;
            if i == 0 {
                return;
            }
        }
    }
}

impl Prop for C06 {
    fn id(&self) -> &'static str {
        "C06"
    }
    fn rule(&self) -> String {
        "operand/operator sequences x0 op1 x1 .. opk xk (k<=5, operands 2 3 5 7 11 13, ops + - * / ^ and the ** synonym) x every bracketing (all binary tree shapes), each rendered with minimal and with full parentheses and compared with the reference evaluator run on the tree; the unparenthesised spelling against the tree the documented table prescribes; `to` chains over length quantities; every sequence of <=3 operators over operands that carry a unit (a number with its unit is one value: `2 m ^ 2` is (2 m)^2), also with `**` and in every 1-slot layout deviation; redundant parentheses; parenthesised groups as function arguments; blank layouts: all combinations of {none,1,2 blanks,tab} per slot for <=2 operators, 4 uniform layouts plus every 1-slot (thorough: 2-slot) deviation beyond, a deviation being any other gap including gaps that mix blank kinds (space+tab, tab+space, spaces+tab+space). Non-trivial = >=2 operators of different priority, or a parenthesis, or a non-canonical layout; distinct = distinct query strings".into()
    }
    fn assumptions(&self) -> Vec<String> {
        vec![
            "trees whose reference value is undefined by the statement (non-integer exponent, exponent magnitude > 1e6 bits) are counted and not judged".into(),
            "blanks around + - and `to` are varied only in number/kind (>=1), as the statement restricts no-blank layouts to * / ^ parentheses and commas between plain numbers".into(),
        ]
    }
    fn generate(&self, tier: Tier, sink: &mut dyn FnMut(Case)) {
        let leaves: Vec<Expr> = OPERANDS.iter().map(|s| num(s)).collect();
        // (six operators were tried for the thorough tier and dropped: with seven operands the
        // bracketings reach towers like (5^385)^221, minutes of bignum work per case that the
        // watchdog would report as hangs although the statement promises no speed)
        let kmax = 5;
        for k in 1..=kmax {
            let shs = shapes(k + 1);
            for_each_ops(k, &mut |ops| {
                // the table-prescribed tree for the bare spelling
                let tt = table_tree(&leaves[..k + 1], ops);
                if judged(&tt) {
                    let mut toks = Vec::new();
                    // bare spelling = no parentheses at all
                    for i in 0..=k {
                        if i > 0 {
                            toks.push(T::Op(ops[i - 1].text()));
                        }
                        toks.push(T::Num(OPERANDS[i].to_string()));
                    }
                    let g = gaps(&toks);
                    emit("bare", render(&toks, &g, &uniform(&g, 1)), &tt, None, sink);
                    if k <= 2 {
                        emit_all_layouts(&toks, &tt, sink);
                    } else {
                        let dev = if k <= 3 { tier.pick(1, 2) } else if k == 4 { tier.pick(0, 1) } else { 0 };
                        emit_layouts("layout-dev1", &toks, &tt, None, true, dev, sink);
                    }
                    if k <= 3 && ops.contains(&Op::Pow) {
                        // the `**` synonym
                        let mut t2 = Vec::new();
                        tokens(&tt, false, true, &mut t2);
                        // tokens() re-derives minimal parentheses for tt: none needed
                        let g2 = gaps(&t2);
                        emit("starstar", render(&t2, &g2, &uniform(&g2, 1)), &tt, None, sink);
                        emit("starstar", render(&t2, &g2, &uniform(&g2, 0)), &tt, None, sink);
                    }
                }
                for sh in &shs {
                    let tree = build(sh, &leaves[..k + 1], ops, &mut 0, &mut 0);
                    if !judged(&tree) {
                        // counted once as DontCare through its canonical spelling
                        let mut toks = Vec::new();
                        tokens(&tree, true, false, &mut toks);
                        let g = gaps(&toks);
                        emit("paren-full", render(&toks, &g, &uniform(&g, 1)), &tree, None, sink);
                        continue;
                    }
                    for full in [false, true] {
                        let mut toks = Vec::new();
                        tokens(&tree, full, false, &mut toks);
                        let g = gaps(&toks);
                        let fam = if full { "paren-full" } else { "paren-min" };
                        emit(fam, render(&toks, &g, &uniform(&g, 1)), &tree, None, sink);
                        let has_paren = toks.contains(&T::L);
                        if has_paren {
                            let dev = if k <= 2 { tier.pick(1, 2) } else if k == 3 { tier.pick(if full { 0 } else { 1 }, 1) } else { 0 };
                            let uni = k <= 4 || tier == Tier::Thorough;
                            emit_layouts("layout-dev1", &toks, &tree, None, uni, dev, sink);
                        }
                    }
                    if k <= 2 {
                        // redundant parentheses around leaves, doubled, and around the whole
                        let variants: Vec<Expr> = redundant(&tree);
                        for v in variants {
                            let mut toks = Vec::new();
                            tokens(&v, false, false, &mut toks);
                            let g = gaps(&toks);
                            emit("redundant", render(&toks, &g, &uniform(&g, 1)), &tree, None, sink);
                            emit("redundant", render(&toks, &g, &uniform(&g, 0)), &tree, None, sink);
                        }
                        // as a function argument
                        // (the last two: the digits argument is itself a call - each argument is evaluated as a unit)
                        for (f, extra) in [("round", None), ("floor", None), ("ceil", None), ("round", Some("1")), ("round", Some("floor(1.5)")), ("round", Some("(ceil(0.2))"))] {
                            for full in [false, true] {
                                let mut toks = vec![T::Fn(f), T::L];
                                tokens(&tree, full, false, &mut toks);
                                if let Some(x) = extra {
                                    toks.push(T::Comma);
                                    toks.push(T::Num(x.to_string()));
                                }
                                toks.push(T::R);
                                let g = gaps(&toks);
                                let wrap = format!("{f}{}", extra.unwrap_or(""));
                                emit("fnarg", render(&toks, &g, &uniform(&g, 1)), &tree, Some(&wrap), sink);
                                emit("fnarg", render(&toks, &g, &uniform(&g, 0)), &tree, Some(&wrap), sink);
                                if k == 1 || tier == Tier::Thorough {
                                    emit_layouts("fnarg-dev1", &toks, &tree, Some(&wrap), true, 1, sink);
                                }
                            }
                        }
                    }
                }
            });
        }
        // `to` binds loosest: sums/products of length quantities followed by casts
        let q: Vec<Expr> = vec![qty("2", "m"), qty("50", "cm"), qty("3", "km"), qty("7", "mm")];
        let n: Vec<Expr> = vec![num("2"), num("3"), num("5"), num("7")];
        for k in 0..=3usize {
            for_each_ops(k, &mut |ops| {
                if ops.contains(&Op::Pow) {
                    return;
                }
                // operands: quantities at + - positions, plain numbers as * / right operands; the first
                // operand a quantity, or a plain number (which adopts the first target and is converted
                // to the later ones: `5 to m to km` is 1/200 km)
                for first in [q[0].clone(), num("5")] {
                let mut leaves = vec![first];
                for (i, op) in ops.iter().enumerate() {
                    leaves.push(match op {
                        Op::Add | Op::Sub => q[(i + 1) % 4].clone(),
                        _ => n[i].clone(),
                    });
                }
                let tt = table_tree(&leaves, ops);
                for casts in [vec!["cm"], vec!["mm", "km"], vec!["in"]] {
                    let mut tree = tt.clone();
                    for c in &casts {
                        tree = to(tree, c);
                    }
                    if !judged(&tree) {
                        continue;
                    }
                    let mut toks = Vec::new();
                    tokens(&tree, false, false, &mut toks);
                    let g = gaps(&toks);
                    emit("to", render(&toks, &g, &uniform(&g, 1)), &tree, None, sink);
                    emit_layouts("to-dev1", &toks, &tree, None, true, if k <= 1 { 1 } else { tier.pick(0, 1) }, sink);
                    // parenthesised left side must mean the same
                    let mut ptree = paren(tt.clone());
                    for c in &casts {
                        ptree = to(ptree, c);
                    }
                    let mut toks = Vec::new();
                    tokens(&ptree, false, false, &mut toks);
                    let g = gaps(&toks);
                    emit("to", render(&toks, &g, &uniform(&g, 1)), &tree, None, sink);
                    emit("to", render(&toks, &g, &uniform(&g, 0)), &tree, None, sink);
                }
                }
            });
        }
        // operands that carry a unit: a number with its unit is one value, so `2 m ^ 2` (blank before
        // the operator) is (2 m) ^ 2 and `3 * 2 m ^ 2` is 3 * ((2 m) ^ 2); every sequence of <=3
        // operators, exponents plain numbers, all other operands lengths (or a leading plain number)
        let ql: Vec<Expr> = vec![qty("2", "m"), qty("3", "m"), qty("50", "cm"), qty("7", "m")];
        let nl: Vec<Expr> = vec![num("3"), num("2"), num("3"), num("2")];
        for k in 1..=3usize {
            for_each_ops(k, &mut |ops| {
                for first_plain in [false, true] {
                    let mut leaves = vec![if first_plain { nl[0].clone() } else { ql[0].clone() }];
                    for (i, op) in ops.iter().enumerate() {
                        leaves.push(if *op == Op::Pow { nl[i + 1].clone() } else { ql[i + 1].clone() });
                    }
                    let tt = table_tree(&leaves, ops);
                    if !judged(&tt) {
                        continue;
                    }
                    for pow2 in [false, true] {
                        if pow2 && !ops.contains(&Op::Pow) {
                            continue;
                        }
                        let mut toks = Vec::new();
                        for (i, l) in leaves.iter().enumerate() {
                            if i > 0 {
                                toks.push(T::Op(if ops[i - 1] == Op::Pow && pow2 { "**" } else { ops[i - 1].text() }));
                            }
                            tokens(l, false, false, &mut toks);
                        }
                        let g = gaps(&toks);
                        emit("quantity", render(&toks, &g, &uniform(&g, 1)), &tt, None, sink);
                        emit("quantity", render(&toks, &g, &uniform(&g, 0)), &tt, None, sink);
                        emit_layouts("quantity-dev1", &toks, &tt, None, true, if k <= 2 { 1 } else { tier.pick(0, 1) }, sink);
                    }
                }
            });
        }
        // unit words separated by blanks multiply, whatever the blanks are: every layout (all
        // combinations of the homogeneous gaps, every 1- and 2-slot deviation to a mixed gap) of a
        // number followed by two or three unit words, alone and as the left operand of a product
        for ws in [vec!["newton", "second"], vec!["kg", "m"], vec!["N", "s"], vec!["kg", "m", "s^-2"], vec!["m", "s^-1"], vec!["kW", "h"], vec!["A", "s", "V"]] {
            let unit = ws.join(" ");
            let mut toks = vec![T::Num("3".into())];
            for w in &ws {
                toks.push(T::Unit(w.to_string()));
            }
            let tree = qty("3", &unit);
            emit_all_layouts(&toks, &tree, sink);
            emit_layouts("unit-words-dev", &toks, &tree, None, true, 2, sink);
            let mut t2 = toks.clone();
            t2.push(T::Op("*"));
            t2.push(T::Num("2".into()));
            t2.push(T::Unit("s".into()));
            let tree2 = bin(tree.clone(), Op::Mul, qty("2", "s"));
            emit_layouts("unit-words-dev", &t2, &tree2, None, true, 1, sink);
        }
    }
    fn check(&self, env: &mut Env, case: &Case) -> Verdict {
        let tree = from_json(&case.data["tree"]);
        let text = case.key.replace("\\t", "\t");
        let wrap = case.data["wrap"].as_str();
        let sig = || {
            let mut s = String::new();
            let mut in_num = false;
            for c in case.key.chars() {
                if c.is_ascii_digit() {
                    if !in_num {
                        s.push('n');
                    }
                    in_num = true;
                } else {
                    in_num = false;
                    s.push(c);
                }
            }
            format!("{}:{}", case.fam, s)
        };
        let nontrivial = case.fam != "bare" || {
            fn prios(e: &Expr, v: &mut Vec<u8>) {
                if let Expr::Bin(a, op, b) = e {
                    v.push(op.prio());
                    prios(a, v);
                    prios(b, v);
                }
            }
            let mut v = Vec::new();
            prios(&tree, &mut v);
            v.iter().any(|p| *p != v[0])
        };
        if case.fam == "layout-uni" {
            // which characters count as blanks beyond space and tab is the tool's choice, and it is
            // asked about each of them alone (`2<c>+<c>3` must be 5): only a layout made of
            // characters the tool takes for blanks is judged - then their number and mixture must
            // not matter
            let mut seen: Vec<char> = Vec::new();
            for c in text.chars().filter(|c| !c.is_ascii() && c.is_whitespace()) {
                if seen.contains(&c) {
                    continue;
                }
                seen.push(c);
                let five = BigRational::from_integer(5.into());
                match obs::eval_one(env.db(), &format!("2{c}+{c}3")) {
                    Ok(Res::Ok { value, unit, .. }) if value == five && unit.is_empty() => {}
                    _ => return Verdict::DontCare("a character other than space and tab that the tool does not take for a blank"),
                }
            }
        }
        if let Some(w) = wrap {
            // function-argument position: expected = RefRound of the tree's value
            let want = match ref_eval(&tree) {
                RefVal::DontCare(r) => return Verdict::DontCare(r),
                RefVal::Undefined(_) => None,
                RefVal::Defined { si, .. } => Some(match w {
                    "round" => BigRational::from_integer(refcalc::ref_round(&si.value)),
                    "floor" => BigRational::from_integer(refcalc::ref_floor(&si.value)),
                    "ceil" => BigRational::from_integer(refcalc::ref_ceil(&si.value)),
                    _ => refcalc::ref_round_digits(&si.value, 1),
                }),
            };
            let got = match obs::eval_one(env.db(), &text) {
                Ok(r) => r,
                Err(why) => return fw::fail(sig(), format!("expected exactly one result, got {why}")),
            };
            return match (want, got) {
                (None, Res::Err { .. }) => fw::pass(true, 0),
                (None, r) => fw::fail(sig(), format!("argument is undefined, tool returned {}", r.short())),
                (Some(w), Res::Ok { value, unit, .. }) if unit.is_empty() && value == w => fw::pass(true, fw::hash_str(&w.to_string())),
                (Some(w), r) => fw::fail(sig(), format!("expected {w}, got {}", r.short())),
            };
        }
        match judge_text(env.db(), &tree, &text) {
            Judged::Agree { obs } => {
                // `to` binds loosest and groups left to right: the result of `... to u1 to u2` is a
                // cast to u2, so it must be *expressed in* u2 (the SI normal form alone cannot tell
                // a dropped last cast from a performed one)
                if let Expr::To(_, u) = &tree {
                    if let (Ok(Res::Ok { unit, unit_text, .. }), Ok(Res::Ok { unit: tu, unit_text: tt, .. })) = (obs::eval_one(env.db(), &text), obs::eval_one(env.db(), &format!("1 {u}"))) {
                        if unit != tu {
                            return fw::fail(format!("to-target-unit:{}", case.fam), format!("{text}: the last cast is to [{tt}] but the result is expressed in [{unit_text}]"));
                        }
                    }
                }
                fw::pass(nontrivial, obs)
            }
            Judged::DontCare(r) => Verdict::DontCare(r),
            Judged::Mismatch(why) => fw::fail(sig(), why),
        }
    }
    fn bounds(&self, tier: Tier) -> serde_json::Value {
        serde_json::json!({
            "operator_sequence_length_max": 5,
            "bracketings": "all (Catalan 1,2,5,14,42)",
            "layouts": {"all_combinations_up_to_operators": 2, "slot_deviations": tier.pick(1, 2)},
            "blank_kinds": ["none", "one space", "two spaces", "tab", "space+tab", "tab+space", "2 spaces+tab+space (mixed kinds only as 1-/2-slot deviations)", "NBSP, space+NBSP, NBSP+space, tab+EM SPACE, THIN SPACE+NBSP (as 1-/2-slot deviations of the one-blank layout; judged when the tool takes each of these characters, asked alone, for a blank)"],
        })
    }
}

/// Redundant-parenthesis variants of a tree (semantically identical).
fn redundant(tree: &Expr) -> Vec<Expr> {
    let mut out = Vec::new();
    // whole expression in one and in two pairs
    out.push(paren(tree.clone()));
    out.push(paren(paren(tree.clone())));
    // each leaf wrapped (first, last, all)
    fn wrap_leaves(e: &Expr, which: &dyn Fn(usize) -> bool, idx: &mut usize, twice: bool) -> Expr {
        match e {
            Expr::Bin(a, op, b) => {
                let l = wrap_leaves(a, which, idx, twice);
                let r = wrap_leaves(b, which, idx, twice);
                bin(l, *op, r)
            }
            Expr::Paren(a) => paren(wrap_leaves(a, which, idx, twice)),
            leaf => {
                let i = *idx;
                *idx += 1;
                if which(i) {
                    if twice {
                        paren(paren(leaf.clone()))
                    } else {
                        paren(leaf.clone())
                    }
                } else {
                    leaf.clone()
                }
            }
        }
    }
    let n = tree.leaves();
    for twice in [false, true] {
        out.push(wrap_leaves(tree, &|i| i == 0, &mut 0, twice));
        out.push(wrap_leaves(tree, &|i| i == n - 1, &mut 0, twice));
        out.push(wrap_leaves(tree, &|_| true, &mut 0, twice));
    }
    out
}
