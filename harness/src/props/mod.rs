pub mod c01;

use crate::fw::Prop;

pub fn all() -> Vec<Box<dyn Prop>> {
    vec![Box::new(c01::C01)]
}

pub fn find(id: &str) -> Option<Box<dyn Prop>> {
    all().into_iter().find(|p| p.id().eq_ignore_ascii_case(id))
}
