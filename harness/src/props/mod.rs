pub mod c01;
pub mod c02;
pub mod c04;
pub mod c06;
pub mod c07;
pub mod c08;
pub mod c10;
pub mod c12;

use crate::fw::Prop;

pub fn all() -> Vec<Box<dyn Prop>> {
    vec![Box::new(c01::C01), Box::new(c02::C02), Box::new(c04::C04), Box::new(c06::C06), Box::new(c07::C07), Box::new(c08::C08), Box::new(c10::C10), Box::new(c12::C12)]
}

pub fn find(id: &str) -> Option<Box<dyn Prop>> {
    all().into_iter().find(|p| p.id().eq_ignore_ascii_case(id))
}
