//! C13 — quantity arithmetic obeys the field laws, including looked-up facts.

use crate::fw::{self, Case, Env, Prop, Tier, Verdict};
use crate::obs::{self, Res};
use crate::props::c04::QUANT;
use crate::props::c16::typeable_phrase;
use crate::refdb;
use crate::tables::{self, Affine, UNITS};
use crate::units;

pub struct C13;

/// literal quantities over the whole vocabulary
fn literal_quantities() -> Vec<String> {
    let mut v: Vec<String> = QUANT.iter().filter(|(_, u)| *u != "Hz").map(|(l, u)| format!("{l} {u}")).collect();
    for (i, u) in UNITS.iter().enumerate() {
        if u.affine != Affine::None {
            continue;
        }
        if let Some(n) = u.names.iter().find(|n| tables::typeable(n)) {
            let lit = ["3", "0.25", "7", "-2", "1.5"][i % 5];
            v.push(format!("{lit} {n}"));
        }
    }
    v.push("5".into());
    v.push("-0.75".into());
    v.push("12.5%".into());
    v.sort();
    v.dedup();
    v
}

fn facts() -> Vec<String> {
    let mut v = Vec::new();
    let mut seen = std::collections::HashSet::new();
    for c in refdb::constants() {
        if typeable_phrase(&c.tokens) {
            let p = c.tokens.join(" ");
            if seen.insert(p.clone()) {
                v.push(p);
            }
        }
    }
    v
}

/// Single typeable words of the constants shipped in the `files` data file (pi, G, g0 ...):
/// a one-word phrase takes the evaluator's WORD path, a several-word phrase the SENTENCE path.
fn one_word_facts() -> Vec<String> {
    let mut v: Vec<String> = Vec::new();
    for c in refdb::constants() {
        if !c.file.contains("files") {
            continue;
        }
        for t in &c.tokens {
            if typeable_phrase(std::slice::from_ref(t)) && tables::find_by_name(t).is_none() && units::readings(t).is_empty() {
                v.push(t.clone());
            }
        }
    }
    v.sort();
    v.dedup();
    v
}

fn p(s: &str) -> String {
    // operands are parenthesised unless they are a bare fact phrase or plain literal
    if s.contains(' ') && s.chars().next().map(|c| c.is_ascii_digit() || c == '-' || c == '.').unwrap_or(false) {
        format!("({s})")
    } else {
        s.to_string()
    }
}

/// `summands`: the operands that are added to each other in this law
fn law(fam: &'static str, lhs: String, rhs: String, summands: &[&str], sink: &mut dyn FnMut(Case)) {
    sink(Case::with(fam, format!("{lhs}  ==  {rhs}"), serde_json::json!({"l": lhs, "r": rhs, "sum": summands})));
}

impl Prop for C13 {
    fn id(&self) -> &'static str {
        "C13"
    }
    fn cross_process_determinism(&self) -> bool {
        false
    }
    fn rule(&self) -> String {
        "Q = ~125 literal quantities (every proportional unit name once, plus base/derived/prefixed/compound spellings) and every shipped fact with a typeable full word set (~770), plus the single typeable words of the `files` constants as one-word phrases (pi, G, g0 ...). a*b=b*a for all ordered pairs of Q (quick: all literal pairs, every fact against a 24-element core and 40 facts against everything); a*b=b*a also for five temperatures on offset scales (°C, °F, long names, a prefixed one) against a 24-quantity core and each other, and (a*b)*c=a*(b*c) with such a temperature in each of the three places over a 12-quantity core; a+b=b+a for the same pairs (incommensurable pairs must fail on both sides); a-a=0 and a/a=1 for all of Q; associativity of + and *, and distributivity written both ways (a*(b+c), (b+c)*a) for all triples over a 40-element core incl. 10 facts (quick 22 incl. 6). Both sides are evaluated by the tool on the same Db and compared in SI normal form. Non-trivial = both sides evaluate to a value; distinct = distinct law instances".into()
    }
    fn assumptions(&self) -> Vec<String> {
        vec!["SI normal form uses the independent unit table".into(), "sums of temperatures on offset scales are excluded (affine scales are not a field under +; no shipped fact uses one); products with such a temperature as a factor are judged (a*b = b*a, both sides read with the degree as an interval)".into(), "fact lookups are compared within one Db instance only".into()]
    }
    fn generate(&self, tier: Tier, sink: &mut dyn FnMut(Case)) {
        let lits = literal_quantities();
        let mut facts = facts();
        let one = one_word_facts();
        facts.extend(one.iter().cloned());
        let mut q: Vec<String> = lits.clone();
        q.extend(facts.iter().cloned());
        // unary laws for all of Q
        for a in &q {
            let a = p(a);
            law("a-a", format!("{a} - {a}"), format!("0 * {a}"), &[], sink);
            law("a/a", format!("{a} / {a}"), "1".to_string(), &[&a], sink);
        }
        // commutativity
        let core: Vec<String> = lits.iter().step_by((lits.len() / 24).max(1)).cloned().collect();
        let fact_core: Vec<String> = facts.iter().step_by((facts.len() / 40).max(1)).cloned().collect();
        let mut pairs = |xs: &[String], ys: &[String], sink: &mut dyn FnMut(Case)| {
            for a in xs {
                for b in ys {
                    let (a, b) = (p(a), p(b));
                    law("a*b", format!("{a} * {b}"), format!("{b} * {a}"), &[], sink);
                    law("a+b", format!("{a} + {b}"), format!("{b} + {a}"), &[&a, &b], sink);
                }
            }
        };
        match tier {
            Tier::Quick => {
                pairs(&lits, &lits, sink);
                pairs(&facts, &core, sink);
                pairs(&core, &facts, sink);
                pairs(&fact_core, &facts, sink);
                pairs(&one, &facts, sink);
                pairs(&facts, &one, sink);
            }
            Tier::Thorough => {
                pairs(&q, &q, sink);
            }
        }
        // commutativity of the product also holds for a temperature on an offset scale as a factor
        // (sums of such temperatures are not a field operation and stay excluded)
        let temps = ["10 °C", "-40 °F", "0.5 celsius", "98.6 fahrenheit", "3 m°C"];
        for t in temps {
            for b in core.iter().map(|s| s.as_str()).chain(temps) {
                let (a, b) = (p(t), p(b));
                law("a*b-offset", format!("{a} * {b}"), format!("{b} * {a}"), &[], sink);
            }
        }
        // ... and so does associativity, with the temperature in each of the three places
        let small: Vec<String> = core.iter().step_by(2).cloned().collect();
        for t in temps {
            for b in &small {
                for c in &small {
                    let (t, b, c) = (p(t), p(b), p(c));
                    law("assoc*-offset", format!("({t} * {b}) * {c}"), format!("{t} * ({b} * {c})"), &[], sink);
                    law("assoc*-offset", format!("({b} * {t}) * {c}"), format!("{b} * ({t} * {c})"), &[], sink);
                    law("assoc*-offset", format!("({b} * {c}) * {t}"), format!("{b} * ({c} * {t})"), &[], sink);
                }
            }
        }
        // triples over a core incl. facts
        let (nl, nf) = tier.pick((16, 6), (30, 10));
        let mut tcore: Vec<String> = lits.iter().step_by((lits.len() / nl).max(1)).take(nl).cloned().collect();
        for f in one.iter().take(3) {
            tcore.push(f.clone());
        }
        for f in ["mercury mass", "earth mass", "earth diameter", "mercury diameter", "population finland", "population world", "earth radius", "mercury radius", "earth orbit distance", "mercury orbital period"].iter().take(nf) {
            tcore.push(f.to_string());
        }
        for a in &tcore {
            for b in &tcore {
                for c in &tcore {
                    let (a, b, c) = (p(a), p(b), p(c));
                    law("assoc*", format!("({a} * {b}) * {c}"), format!("{a} * ({b} * {c})"), &[], sink);
                    law("assoc+", format!("({a} + {b}) + {c}"), format!("{a} + ({b} + {c})"), &[&a, &b, &c], sink);
                    law("distrib-left", format!("{a} * ({b} + {c})"), format!("({a} * {b}) + ({a} * {c})"), &[&b, &c], sink);
                    law("distrib-right", format!("({b} + {c}) * {a}"), format!("({b} * {a}) + ({c} * {a})"), &[&b, &c], sink);
                }
            }
        }
    }
    fn check(&self, env: &mut Env, case: &Case) -> Verdict {
        let l = case.data["l"].as_str().unwrap();
        let r = case.data["r"].as_str().unwrap();
        // The laws are stated for quantities "with compatible dimensions": a
        // plain number next to a dimensioned quantity in a sum is unit
        // adoption (C02), not field addition; a zero has no quotient.
        if let Some(sum) = case.data["sum"].as_array() {
            let mut plain = 0;
            let mut dimensioned = 0;
            let mut dims: Vec<tables::Dim> = Vec::new();
            for s in sum {
                match obs::eval_one(env.db(), s.as_str().unwrap()) {
                    Ok(Res::Ok { unit, value, .. }) => {
                        if case.fam == "a/a" && num::Zero::is_zero(&value) {
                            return Verdict::DontCare("a/a for a = 0");
                        }
                        if unit.is_empty() {
                            plain += 1
                        } else {
                            dimensioned += 1
                        }
                        if let Ok(si) = units::si_of(&value, &unit, true) {
                            dims.push(si.dim);
                        }
                    }
                    _ => {}
                }
            }
            if case.fam != "a+b" && dims.windows(2).any(|w| w[0] != w[1]) {
                return Verdict::DontCare("summands are not commensurable (law's precondition)");
            }
            if plain > 0 && dimensioned > 0 {
                return Verdict::DontCare("plain number summed with a dimensioned quantity (unit adoption, C02)");
            }
        }
        let ev = |env: &mut Env, q: &str| obs::eval_one(env.db(), q);
        let (gl, gr) = (ev(env, l), ev(env, r));
        let (gl, gr) = match (gl, gr) {
            (Ok(a), Ok(b)) => (a, b),
            (Err(e), _) | (_, Err(e)) => return fw::fail(format!("{}:results", case.fam), format!("{}: {e}", case.key)),
        };
        match (&gl, &gr) {
            (Res::Err { .. }, Res::Err { .. }) => fw::pass(false, 0),
            (Res::Ok { value: lv, unit: lu, .. }, Res::Ok { value: rv, unit: ru, .. }) => {
                // results that carry a degree are compared with the degree read as an interval on both
                // sides (the reading is the same on both sides, so the law needs no choice of reading)
                let interval = case.fam.ends_with("-offset");
                if !interval && (units::has_affine(lu) || units::has_affine(ru)) {
                    return Verdict::DontCare("offset scale");
                }
                let (sl, sr) = match (units::si_of(lv, lu, interval), units::si_of(rv, ru, interval)) {
                    (Ok(a), Ok(b)) => (a, b),
                    (Err(e), _) | (_, Err(e)) => return crate::units::table_verdict(e),
                };
                if sl == sr {
                    fw::pass(true, fw::hash_str(&sl.short()))
                } else {
                    fw::fail(
                        format!("{}:{}", case.fam, if sl.dim != sr.dim { "dimension" } else { "value" }),
                        format!("`{l}` = {} ({}) but `{r}` = {} ({})", sl.short(), gl.short(), sr.short(), gr.short()),
                    )
                }
            }
            _ => {
                // for the associativity/distributivity laws an incommensurable
                // inner sum may be reached on one side only after a product has
                // changed nothing; both sides must still agree on failing
                fw::fail(format!("{}:one-side-fails", case.fam), format!("`{l}` -> {} but `{r}` -> {}", gl.short(), gr.short()))
            }
        }
    }
    fn bounds(&self, tier: Tier) -> serde_json::Value {
        serde_json::json!({"literal_quantities": literal_quantities().len(), "facts": facts().len(), "triple_core": tier.pick(22, 40)})
    }
}
