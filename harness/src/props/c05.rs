//! C05 — every unit word denotes the standard definition of a unit and prefix.

use crate::fw::{self, Case, Env, Prop, Tier, Verdict};
use crate::obs::{self, Res, UnitParts};
use crate::tables::{self, PREFIXES, UNITS};
use crate::units::{self, Meaning};
use num::{BigRational, One};

pub struct C05;

fn all_names() -> Vec<&'static str> {
    let mut v = Vec::new();
    for u in UNITS {
        for n in u.names {
            v.push(*n);
        }
    }
    v
}

fn prefix_spellings() -> Vec<&'static str> {
    let mut v = vec![""];
    for (s, l, _) in PREFIXES {
        v.push(s);
        v.push(l);
    }
    v
}

/// How the tool reads a word through both entry points.
enum Read {
    Rejected,
    /// one entry per entry point that accepts the word: (value of `1 <word>`, unit, unit text).
    /// The statement speaks about every acceptance on its own ("whenever the tool accepts a
    /// unit word it interprets it as one of the valid readings"): the entry points need not
    /// agree on accepting, nor - for a word with several readings - on the reading, and the
    /// scale may sit in the unit's prefixes or in the number.
    Accepted(Vec<(BigRational, UnitParts, String)>),
    Disagree(String),
}

fn read_word(env: &mut Env, w: &str) -> Read {
    let via_query = obs::eval_one(env.db(), &format!("1 {w}"));
    let via_parse = w.parse::<anything::Compound>();
    let mut acc = Vec::new();
    match via_query {
        Ok(Res::Ok { value, unit, unit_text }) => acc.push((value, unit, format!("query: {unit_text}"))),
        Ok(Res::Err { .. }) => {}
        Err(why) => return Read::Disagree(format!("`1 {w}`: {why}")),
    }
    if let Ok(c) = via_parse {
        let parts = obs::unit_parts(&c);
        if !acc.iter().any(|(v, p, _)| v.is_one() && *p == parts) {
            acc.push((BigRational::one(), parts, format!("str::parse: {c}")));
        }
    }
    if acc.is_empty() {
        Read::Rejected
    } else {
        Read::Accepted(acc)
    }
}

/// The meaning of one acceptance: the unit's SI scale times the value `1 <word>` came back with.
fn meaning_of_reading(value: &BigRational, parts: &UnitParts) -> Result<Meaning, String> {
    let mut m = meaning_of_parts(parts)?;
    m.scale = m.scale * value;
    Ok(m)
}

pub fn meaning_of_parts(parts: &UnitParts) -> Result<Meaning, String> {
    let si = units::si_of(&BigRational::one(), parts, true)?;
    Ok(Meaning { scale: si.value, dim: si.dim, affine: units::has_affine(parts) })
}

fn word_class(w: &str) -> String {
    // class of a word for signatures: its reference segmentations' shapes
    let rs = units::readings(w);
    format!("{}readings", rs.len())
}

const EXPR_UNITS_Q: [&str; 6] = ["m", "s", "kg", "N", "J", "h"];
const EXPR_UNITS_T: [&str; 8] = ["m", "s", "kg", "N", "J", "h", "A", "km"];
const SEPS: [&str; 4] = ["", " ", "*", "/"];

fn items(units_: &[&str], powers: &[&str]) -> Vec<String> {
    let mut v = Vec::new();
    for u in units_ {
        for p in powers {
            v.push(format!("{u}{p}"));
        }
    }
    v
}

fn gen_exprs(fam: &'static str, items: &[String], n: usize, sink: &mut dyn FnMut(Case)) {
    // all sequences of n items joined by all separator choices
    let mut idx = vec![0usize; n];
    loop {
        let mut sep = vec![0usize; n.saturating_sub(1)];
        loop {
            let mut s = String::new();
            for i in 0..n {
                if i > 0 {
                    s.push_str(SEPS[sep[i - 1]]);
                }
                s.push_str(&items[idx[i]]);
            }
            sink(Case::new(fam, s));
            // next separator tuple
            let mut j = sep.len();
            let mut done = true;
            while j > 0 {
                j -= 1;
                sep[j] += 1;
                if sep[j] < SEPS.len() {
                    done = false;
                    break;
                }
                sep[j] = 0;
            }
            if done {
                break;
            }
        }
        let mut i = n;
        let mut done = true;
        while i > 0 {
            i -= 1;
            idx[i] += 1;
            if idx[i] < items.len() {
                done = false;
                break;
            }
            idx[i] = 0;
        }
        if done {
            return;
        }
    }
}

impl Prop for C05 {
    fn id(&self) -> &'static str {
        "C05"
    }
    fn rule(&self) -> String {
        "vocabulary: every documented name and alias (278) x every prefix spelling (none, 20 symbols, 20 long names) as one word; every ordered concatenation of two names; every concatenation of three names of length <=2; each word read through `1 <word>` and through str::parse::<Compound> (must agree). Accepted words must mean one of the word's (prefix? name)+ segmentations over the independent table; a bare documented name must be accepted with its own meaning (standard meaning where the documented one deviates). Base expansion: every documented unit under the powers 1, -1, 2, -2, 3 converted to its dimensions spelled in base units (`1 T^2 to kg^2*s^-4*A^-2`): exact scale^p, never refused. Unit expressions: all sequences of <=3 items (unit with optional ^n, n in {-2,-1,2,3}) over 6 units (thorough: 8 units, and 4 items over 4 units) x separators {juxtaposition, blank, *, /}, compared with the reference reading (/ inverts everything after it, ^n binds to the unit it follows). One unit under two prefixes (8 units x 9 prefix pairs x 12 shapes such as km/m, km^-1 m, s*km/m): refused or read as spelled. Non-trivial = the tool accepted the word/expression and it has a non-empty unit; distinct = distinct words/expressions".into()
    }
    fn assumptions(&self) -> Vec<String> {
        vec![
            "a multi-unit word the tool rejects although it has a valid reading is not judged (the statement constrains accepted words and bare names)".into(),
            "expressions repeating one unit with two different prefixes are documented errors: refusing them is not judged, accepting them is (the meaning must be the spelled one)".into(),
            "words containing characters the query lexer cannot carry (Ω, μ, g-force) are outside the quantifier".into(),
        ]
    }
    fn generate(&self, tier: Tier, sink: &mut dyn FnMut(Case)) {
        let names = all_names();
        for n in &names {
            for p in prefix_spellings() {
                let w = format!("{p}{n}");
                if tables::typeable(&w) {
                    sink(Case::new("prefix-name", w));
                }
            }
        }
        for a in &names {
            for b in &names {
                let w = format!("{a}{b}");
                if tables::typeable(&w) {
                    sink(Case::new("name-name", w));
                }
            }
        }
        let short: Vec<&&str> = names.iter().filter(|n| n.chars().count() <= 2).collect();
        for a in &short {
            for b in &short {
                for c in &short {
                    let w = format!("{a}{b}{c}");
                    if tables::typeable(&w) {
                        sink(Case::new("name3", w));
                    }
                }
            }
        }
        // every documented unit forced through its own expansion into base units, under powers
        for u in tables::UNITS {
            if u.affine != tables::Affine::None || u.dim == tables::DIM0 {
                continue;
            }
            let Some(n) = u.names.iter().find(|n| tables::typeable(n)) else { continue };
            for p in [1i64, -1, 2, -2, 3] {
                sink(Case::new("base-expansion", format!("{n}|{p}")));
            }
        }
        // two unit words that also read as one word when the blank between them is left out
        // (`m s` / `ms`, `m in` / `min`): both spellings, in both orders, in one thread
        for (a, b) in [("m", "s"), ("m", "in"), ("m", "m"), ("m", "l"), ("m", "g"), ("m", "N"), ("T", "m"), ("c", "d"), ("k", "g"), ("M", "W"), ("h", "a")] {
            for pw in ["", "^2", "^-1"] {
                let spaced = serde_json::json!([format!("3 {a} {b}{pw}"), format!("{a}*{b}{pw}"), 3]);
                let glued = serde_json::json!([format!("3 {a}{b}{pw}"), format!("{a}{b}{pw}"), 3]);
                let star = serde_json::json!([format!("5 {a}*{b}{pw}"), format!("{a}*{b}{pw}"), 5]);
                sink(Case::with("blank-or-glued", format!("[{a} {b}{pw}, {a}{b}{pw}]"), serde_json::json!([spaced, glued])));
                sink(Case::with("blank-or-glued", format!("[{a}{b}{pw}, {a} {b}{pw}]"), serde_json::json!([glued, spaced])));
                sink(Case::with("blank-or-glued", format!("[{a}{b}{pw}, {a}*{b}{pw}, {a} {b}{pw}]"), serde_json::json!([glued, star, spaced])));
            }
        }
        // one unit under two different prefixes in one expression: refused, or read as spelled
        for u in ["m", "s", "g", "N", "J", "W", "V", "B"] {
            for (a, b) in [("k", ""), ("", "k"), ("m", "k"), ("k", "m"), ("M", "k"), ("c", "m"), ("m", ""), ("", "c"), ("G", "M")] {
                let (x, y) = (format!("{a}{u}"), format!("{b}{u}"));
                for e in [
                    format!("{x}/{y}"),
                    format!("{x}*{y}"),
                    format!("{x} {y}"),
                    format!("{x}^-1 {y}"),
                    format!("{x}^-1*{y}"),
                    format!("{x}^2/{y}^2"),
                    format!("{x}^2/{y}"),
                    format!("{x}/{y}^2"),
                    format!("s*{x}/{y}"),
                    format!("{x}*kg/{y}"),
                    format!("{x}/kg*{y}"),
                    format!("{x}^3/{y}^2/{x}"),
                ] {
                    sink(Case::new("expr-two-prefixes", e));
                }
            }
        }
        let pw = ["", "^-2", "^-1", "^2", "^3"];
        match tier {
            Tier::Quick => {
                let it = items(&EXPR_UNITS_Q, &["", "^2", "^-1"]);
                for n in 1..=3 {
                    gen_exprs("expr", &it, n, sink);
                }
                let it2 = items(&EXPR_UNITS_Q[..4], &pw);
                gen_exprs("expr", &it2, 2, sink);
            }
            Tier::Thorough => {
                let it = items(&EXPR_UNITS_T, &pw);
                for n in 1..=3 {
                    gen_exprs("expr", &it, n, sink);
                }
                let it4 = items(&EXPR_UNITS_T[..4], &["", "^2", "^-1"]);
                gen_exprs("expr4", &it4, 4, sink);
            }
        }
    }
    fn check(&self, env: &mut Env, case: &Case) -> Verdict {
        let w = &case.key;
        if case.fam.starts_with("expr") {
            return check_expr(env, w);
        }
        if case.fam == "blank-or-glued" {
            // a short history in one thread: two unit words separated by a blank are a product, the
            // same letters without the blank are one word; what either means must not depend on
            // which of them this thread has seen before
            let mut h = 0u64;
            for item in case.data.as_array().unwrap() {
                let (q, expr, x) = (item[0].as_str().unwrap(), item[1].as_str().unwrap(), item[2].as_i64().unwrap());
                let Some(m) = units::unit_expr(expr) else { return Verdict::DontCare("no reference reading") };
                let want = BigRational::from_integer(x.into()) * &m.scale;
                match crate::obs::eval_one(env.db(), q) {
                    Ok(crate::obs::Res::Ok { value, unit, .. }) => match units::si_of(&value, &unit, false) {
                        Ok(si) if si.value == want && si.dim == m.dim => h = h.wrapping_mul(31).wrapping_add(fw::hash_str(&si.short())),
                        Ok(si) => return fw::fail("blank-or-glued:meaning", format!("history {w}: `{q}` means {x} [{expr}] = SI {want} [{}], got {}", tables::dim_text(&m.dim), si.short())),
                        Err(e) => return crate::units::table_verdict(format!("{q}: {e}")),
                    },
                    Ok(crate::obs::Res::Err { msg, .. }) => {
                        if crate::obs::rejected_unit_word(env.db(), q).is_some() {
                            return Verdict::DontCare("unit word rejected by the tool");
                        }
                        return fw::fail("blank-or-glued:refused", format!("history {w}: `{q}` refused: {msg}"));
                    }
                    Err(why) => return fw::fail("results:blank-or-glued", format!("history {w}: {q}: {why}")),
                }
            }
            return fw::pass(true, h);
        }
        if case.fam == "base-expansion" {
            let (name, p) = w.split_once('|').unwrap();
            let p: i64 = p.parse().unwrap();
            let u = tables::find_by_name(name).unwrap();
            // target: the unit's dimensions times p written in base units, negative powers explicit (no `/`)
            let base_words = ["kg", "m", "s", "A", "K", "mol", "cd", "B"];
            let mut parts = Vec::new();
            for i in 0..8 {
                let e = u.dim[i] as i64 * p;
                if e == 1 {
                    parts.push(base_words[i].to_string());
                } else if e != 0 {
                    parts.push(format!("{}^{e}", base_words[i]));
                }
            }
            let target = parts.join("*");
            let src = if p == 1 { name.to_string() } else { format!("{name}^{p}") };
            let q = format!("1 {src} to {target}");
            let want = crate::obs::rpow(&units::scale_of(u), p).unwrap();
            return match crate::obs::eval_one(env.db(), &q) {
                Ok(crate::obs::Res::Ok { value, unit, .. }) => match units::si_of(&value, &unit, false) {
                    Ok(si) if value == want && si.value == want && si.dim == tables::dim_add(&tables::DIM0, &u.dim, p as i32) => fw::pass(true, fw::hash_str(&want.to_string())),
                    Ok(si) => fw::fail(format!("base-expansion:{}", u.names[0]), format!("{q}: `{name}` is {} [{}], so the result must be {want}; got {value} ({})", units::scale_of(u), tables::dim_text(&u.dim), si.short())),
                    Err(e) => crate::units::table_verdict(format!("{q}: {e}")),
                },
                Ok(crate::obs::Res::Err { msg, .. }) => fw::fail(format!("base-expansion-refused:{}", u.names[0]), format!("{q}: `{name}` has dimensions [{}] (power {p}) but the conversion to base units is refused: {msg}", tables::dim_text(&u.dim))),
                Err(why) => fw::fail("results:base-expansion", format!("{q}: {why}")),
            };
        }
        let bare = tables::find_by_name(w);
        let read = read_word(env, w);
        let accepted = match read {
            Read::Disagree(why) => return fw::fail(format!("entry-points:{}", word_class(w)), why),
            Read::Rejected => {
                if let Some(u) = bare {
                    return fw::fail(format!("bare-rejected:{}", u.names[0]), format!("documented unit name `{w}` is rejected on its own"));
                }
                return Verdict::DontCare("word rejected by the tool");
            }
            Read::Accepted(a) => a,
        };
        if let Some(u) = bare {
            if !accepted.iter().any(|(_, _, t)| t.starts_with("query:")) {
                return fw::fail(format!("bare-rejected:{}", u.names[0]), format!("documented unit name `{w}` is rejected on its own as a query word"));
            }
        }
        let mut last = Verdict::DontCare("no acceptance");
        for (value, parts, text) in &accepted {
            last = self.judge_word(w, bare, value, parts, text);
            if matches!(last, Verdict::Fail { .. }) {
                return last;
            }
        }
        last
    }
    fn bounds(&self, tier: Tier) -> serde_json::Value {
        serde_json::json!({"names": all_names().len(), "prefix_spellings": 41, "expression_items_max": tier.pick(3, 4)})
    }
}

impl C05 {
    /// One acceptance of the word `w` (by one entry point) against the valid readings.
    fn judge_word(&self, w: &str, bare: Option<&'static tables::UnitDef>, value: &BigRational, parts: &UnitParts, text: &str) -> Verdict {
        let got = match meaning_of_reading(value, parts) {
            Ok(m) => m,
            Err(e) => return crate::units::table_verdict(format!("`{w}` read as [{text}]: {e}")),
        };
        let obs_hash = fw::hash_str(&format!("{}|{:?}", got.scale, got.dim));
        if let Some(u) = bare {
            let want = units::reading_meaning(&vec![(0, u)]);
            if got.scale != want.scale || got.dim != want.dim {
                return fw::fail(
                    format!("bare-meaning:{}", u.names[0]),
                    format!("documented name `{w}` must mean {} [{}], tool reads it as [{text}] = {} [{}]", want.scale, tables::dim_text(&want.dim), got.scale, tables::dim_text(&got.dim)),
                );
            }
            if let Some(std) = u.standard {
                let std = tables::parse_scale(std);
                if got.scale != std {
                    return fw::fail(
                        format!("standard-meaning:{}", u.names[0]),
                        format!("`{w}` is {} [{}] in the tool; the cited standards define it as {} ({})", got.scale, tables::dim_text(&got.dim), std, u.note),
                    );
                }
            }
            return fw::pass(true, obs_hash);
        }
        let rs = units::readings(w);
        if rs.iter().any(|r| {
            let m = units::reading_meaning(r);
            m.scale == got.scale && m.dim == got.dim
        }) {
            return fw::pass(true, obs_hash);
        }
        // a reading under the SI prefixes of 2022 (ronna, quetta, ronto, quecto) is a valid reading too:
        // the tool does not know them today, a build that learns them keeps the statement
        let ext = units::readings_2022(w);
        if ext.iter().any(|r| {
            let m = units::reading_meaning(r);
            m.scale == got.scale && m.dim == got.dim
        }) {
            return fw::pass(true, obs_hash);
        }
        // a word the harness's vocabulary cannot segment at all (`foot`, `kn`, `d` for the day in a
        // build that learnt them): whether its meaning is the standard one cannot be judged here
        if rs.is_empty() && ext.is_empty() {
            return Verdict::DontCare("the word is outside the harness's vocabulary");
        }
        // Known root cause class: the generated logos lexer, after failing to
        // complete a longer token, returns a shorter one but resumes further
        // right, silently dropping characters. Recognised mechanically: the
        // accepted meaning is a reading of the word with one contiguous run of
        // characters deleted; the signature names the element before the gap
        // and the dropped run.
        if let Some(sig) = dropped_run(w, &got) {
            return fw::fail(
                format!("lexer-drops:{sig}"),
                format!("`{w}` accepted as [{text}] = {} [{}]: not a reading of the word, but a reading of it with the characters after `{}` dropped (`{}`)", got.scale, tables::dim_text(&got.dim), sig.split('|').next().unwrap_or(""), sig.split('|').nth(1).unwrap_or("")),
            );
        }
        fw::fail(
            format!("not-a-reading:{}", word_class(w)),
            format!(
                "`{w}` accepted as [{text}] = {} [{}], which is none of its {} valid readings{}",
                got.scale,
                tables::dim_text(&got.dim),
                rs.len(),
                rs.first().map(|r| format!(" (e.g. {})", r.iter().map(|(p, u)| format!("10^{p}*{}", u.names[0])).collect::<Vec<_>>().join(" "))).unwrap_or_default()
            ),
        )
    }
}

fn check_expr(env: &mut Env, e: &str) -> Verdict {
    // reference reading; juxtaposed words must have a single segmentation
    let words: Vec<&str> = e.split(|c: char| !c.is_ascii_alphabetic()).filter(|w| !w.is_empty()).collect();
    for w in &words {
        if tables::find_by_name(w).is_none() && units::readings(w).len() != 1 {
            return Verdict::DontCare("juxtaposition forms a word with several readings");
        }
    }
    let flat = match units::unit_expr_flat(e) {
        Some(f) => f,
        None => return Verdict::DontCare("no reference reading"),
    };
    // one unit under two prefixes: the tool documents a "mismatching prefix" error; refusing is fine,
    // but an accepted expression must still mean what it spells
    let mixed = units::mixed_prefix(&flat);
    let want = match units::flat_meaning(&flat) {
        Some(m) => m,
        None => return Verdict::DontCare("no reference meaning"),
    };
    let class = || {
        // shape: separators and powers with unit names abstracted
        let mut s = String::new();
        let mut in_word = false;
        for c in e.chars() {
            if c.is_ascii_alphabetic() {
                if !in_word {
                    s.push('u');
                }
                in_word = true;
            } else {
                in_word = false;
                s.push(c);
            }
        }
        s
    };
    match read_word(env, e) {
        Read::Disagree(why) => fw::fail(format!("expr-entry-points:{}", class()), why),
        Read::Rejected if mixed => Verdict::DontCare("one unit with two prefixes, refused"),
        Read::Rejected => {
            // only judged when every word is a documented name or one
            // prefix+name: rejecting a juxtaposed multi-unit word is allowed
            if words.iter().all(|w| tables::find_by_name(w).is_some()) {
                fw::fail(format!("expr-rejected:{}", class()), format!("unit expression `{e}` of documented names is rejected; it reads as {} [{}]", want.scale, tables::dim_text(&want.dim)))
            } else {
                Verdict::DontCare("expression with a juxtaposed multi-unit word rejected by the tool")
            }
        }
        Read::Accepted(accepted) => {
            let mut h = 0u64;
            for (value, parts, text) in &accepted {
                match meaning_of_reading(value, parts) {
                    Err(er) => return crate::units::table_verdict(format!("`{e}` read as [{text}]: {er}")),
                    Ok(got) => {
                        if got.scale != want.scale || got.dim != want.dim {
                            return fw::fail(
                                format!("expr-meaning:{}", class()),
                                format!("`{e}` must read as {} [{}], tool reads it as [{text}] = {} [{}]", want.scale, tables::dim_text(&want.dim), got.scale, tables::dim_text(&got.dim)),
                            );
                        }
                        h = fw::hash_str(&format!("{}|{:?}", got.scale, got.dim));
                    }
                }
            }
            // a documented-names expression must be accepted as a query at least
            if !mixed && words.iter().all(|w| tables::find_by_name(w).is_some()) && !accepted.iter().any(|(_, _, t)| t.starts_with("query:")) {
                return fw::fail(format!("expr-rejected:{}", class()), format!("unit expression `{e}` of documented names is rejected as a query; it reads as {} [{}]", want.scale, tables::dim_text(&want.dim)));
            }
            fw::pass(true, h)
        }
    }
}

/// If `got` is the meaning of `w` with one contiguous run deleted, return
/// "<element before the gap>|<dropped run>" for the left-most, shortest such run.
pub fn dropped_run(w: &str, got: &Meaning) -> Option<String> {
    let cs: Vec<char> = w.chars().collect();
    for i in 1..cs.len() {
        for j in (i + 1)..=cs.len() {
            let head: String = cs[..i].iter().collect();
            let tail: String = cs[j..].iter().collect();
            let cut = format!("{head}{tail}");
            for r in units::readings_spans(&cut) {
                // the gap must fall on a boundary of the reading: after a
                // prefix or after a whole element
                let mut pos = 0;
                let mut before: Option<String> = None;
                for (pt, nt, _, _) in &r {
                    pos += pt.chars().count();
                    if pos == i && !pt.is_empty() {
                        before = Some(pt.clone());
                    }
                    pos += nt.chars().count();
                    if pos == i {
                        before = Some(nt.clone());
                    }
                }
                let before = match before {
                    Some(b) => b,
                    None => continue,
                };
                let m = units::reading_meaning(&r.iter().map(|(_, _, p, u)| (*p, *u)).collect());
                if m.scale == got.scale && m.dim == got.dim {
                    let dropped: String = cs[i..j].iter().collect();
                    return Some(format!("{before}|{dropped}"));
                }
            }
        }
    }
    None
}

/// Is `w` one of the words the generated unit lexer misreads by dropping
/// characters (C05's recorded finding class)? Used by other checks to leave
/// those words to C05.
pub fn misread_by_lexer(env: &mut Env, w: &str) -> bool {
    if let Ok(Res::Ok { unit, .. }) = obs::eval_one(env.db(), &format!("1 {w}")) {
        if let Ok(got) = meaning_of_parts(&unit) {
            let ok = units::readings(w).iter().any(|r| {
                let m = units::reading_meaning(r);
                m.scale == got.scale && m.dim == got.dim
            });
            return !ok && dropped_run(w, &got).is_some();
        }
    }
    false
}
