//! C16 — every shipped fact can be found by its own words.

use crate::fw::{self, Case, Env, Prop, Tier, Verdict};
use crate::obs::{self, Res};
use crate::refdb;

pub struct C16;

/// Harness-side predicate over the documented lexical classes (not the lexer):
/// a phrase is a WORD followed by WORD|NUMBER tokens.
pub fn word_ok(w: &str) -> bool {
    !w.is_empty() && w != "to" && w.chars().all(|c| c.is_ascii_alphanumeric() || c == '°' || c == '\'')
}

pub fn typeable_phrase(words: &[String]) -> bool {
    if words.is_empty() || !words.iter().all(|w| word_ok(w)) {
        return false;
    }
    let first = &words[0];
    if !first.chars().next().map(|c| c.is_ascii_alphabetic() || c == '°' || c == '\'').unwrap_or(false) {
        return false;
    }
    // a later word that starts with a digit must be a whole number token or
    // number-then-word, both fine inside a phrase; but `1e5`-like words would
    // lex as one NUMBER too. All fine: the phrase text is the source span.
    true
}

fn permutations(n: usize) -> Vec<Vec<usize>> {
    fn rec(cur: &mut Vec<usize>, used: &mut Vec<bool>, n: usize, out: &mut Vec<Vec<usize>>) {
        if cur.len() == n {
            out.push(cur.clone());
            return;
        }
        for i in 0..n {
            if !used[i] {
                used[i] = true;
                cur.push(i);
                rec(cur, used, n, out);
                cur.pop();
                used[i] = false;
            }
        }
    }
    let mut out = Vec::new();
    rec(&mut Vec::new(), &mut vec![false; n], n, &mut out);
    out
}

impl Prop for C16 {
    fn id(&self) -> &'static str {
        "C16"
    }
    fn cross_process_determinism(&self) -> bool {
        false
    }
    fn rule(&self) -> String {
        "every constant of the shipped data files (decoded independently: flate2 + serde_cbor Value) x every permutation of its <=6 search words, asked as a query with descriptions on. Typeable = every word is [A-Za-z0-9°'] and not `to`, the first word starts with a letter (harness-side predicate; constants without a typeable spelling are counted as outside the quantifier). Oracle: exactly one Ok result, one description whose constant carries every query word, decodes with value/unit/description and a source that resolves to the record the data files store under its id (id, description, url), and whose value/unit are the result and equal the value/unit/source id stored in the data file (read without the subject's types). Non-trivial = the phrase has >=2 words; distinct = distinct phrases".into()
    }
    fn assumptions(&self) -> Vec<String> {
        vec!["lookups are made on one in-memory database per worker process".into()]
    }
    fn generate(&self, _tier: Tier, sink: &mut dyn FnMut(Case)) {
        let mut seen = std::collections::HashSet::new();
        for c in refdb::constants() {
            let n = c.tokens.len();
            if n == 0 || n > 6 {
                sink(Case::new("untypeable", format!("#{} words: {:?}", n, c.tokens)));
                continue;
            }
            let mut any = false;
            for p in permutations(n) {
                let words: Vec<String> = p.iter().map(|i| c.tokens[*i].clone()).collect();
                if typeable_phrase(&words) {
                    any = true;
                    let phrase = words.join(" ");
                    if seen.insert(phrase.clone()) {
                        sink(Case::new(if p.iter().enumerate().all(|(i, j)| i == *j) { "own-order" } else { "permuted" }, phrase));
                    }
                }
            }
            if !any {
                sink(Case::new("untypeable", c.tokens.join(" ")));
            }
        }
    }
    fn check(&self, env: &mut Env, case: &Case) -> Verdict {
        if case.fam == "untypeable" {
            return Verdict::DontCare("constant has no typeable spelling");
        }
        let q = &case.key;
        let words: Vec<&str> = q.split(' ').collect();
        let d = match obs::eval_described(env.db(), q, true) {
            Some(d) => d,
            None => return fw::fail("parse", format!("{q}: parse failed")),
        };
        let sig = |what: &str| format!("{what}:{}words", words.len());
        if d.results.len() != 1 {
            return fw::fail(sig("results"), format!("{q}: {} results: {}", d.results.len(), d.results.iter().map(|r| r.short()).collect::<Vec<_>>().join("; ")));
        }
        let (value, unit) = match &d.results[0] {
            Res::Ok { value, unit, .. } => (value, unit),
            Res::Err { msg, .. } => return fw::fail(sig("not-found"), format!("{q}: {msg}")),
        };
        if d.descriptions.len() != 1 {
            return fw::fail(sig("descriptions"), format!("{q}: {} descriptions", d.descriptions.len()));
        }
        let (phrase, c) = &d.descriptions[0];
        if phrase != q {
            return fw::fail(sig("phrase"), format!("{q}: described phrase is {phrase:?}"));
        }
        for w in &words {
            if !c.tokens.iter().any(|t| t.as_ref().eq_ignore_ascii_case(w)) {
                return fw::fail(sig("missing-word"), format!("{q}: returned constant {:?} ({}) does not carry the word `{w}`", c.tokens, c.description));
            }
        }
        if c.description.is_empty() {
            return fw::fail(sig("no-description"), format!("{q}: constant without description"));
        }
        if let Some(id) = c.source {
            match env.db().get_source(id) {
                None => return fw::fail(sig("source"), format!("{q}: source {id} of the constant does not resolve")),
                Some(s) => {
                    // "decodes completely (... and source)": the source it resolves to is the one the data
                    // files store under that id
                    static SOURCES: std::sync::OnceLock<Vec<(u64, Option<String>, Option<String>)>> = std::sync::OnceLock::new();
                    let stored = SOURCES.get_or_init(refdb::sources);
                    if let Some((_, d, u)) = stored.iter().find(|r| r.0 == id) {
                        if s.id != id || d.as_deref().map(|d| d != s.description.as_ref()).unwrap_or(false) || (u.is_some() && u.as_deref() != s.url.as_deref()) {
                            return fw::fail(sig("source-other"), format!("{q}: source {id} of the constant resolves to source {} ({}); the data files store {:?} under that id", s.id, s.description, d));
                        }
                    }
                }
            }
        }
        if &obs::rat_of(&c.value) != value || &obs::unit_parts(&c.unit) != unit {
            return fw::fail(sig("value"), format!("{q}: result {} is not the described constant's value", d.results[0].short()));
        }
        // "decodes completely": value and unit must be the stored ones, read from the data
        // files without any of the subject's types
        static STORED: std::sync::OnceLock<Vec<refdb::RefConstant>> = std::sync::OnceLock::new();
        let stored = STORED.get_or_init(refdb::constants);
        let mut toks: Vec<String> = c.tokens.iter().map(|t| t.to_string()).collect();
        // identified by its *set* of words and its description: how often the tool keeps a
        // repeated search word of a fact is not part of the statement
        toks.sort();
        toks.dedup();
        let cands: Vec<&refdb::RefConstant> = stored
            .iter()
            .filter(|r| {
                let mut t = r.tokens.clone();
                t.sort();
                t.dedup();
                t == toks && r.description.as_deref() == Some(c.description.as_ref())
            })
            .collect();
        if cands.is_empty() {
            return fw::fail(sig("not-a-stored-constant"), format!("{q}: returned constant {:?} ({}) is not in the data files", c.tokens, c.description));
        }
        let matches = |r: &refdb::RefConstant| {
            let mut want_unit = r.unit.as_ref().map(obs::unit_parts_of_value).unwrap_or_default();
            want_unit.sort();
            let mut got_unit = unit.clone();
            got_unit.sort();
            r.value.as_ref() == Some(value) && want_unit == got_unit && r.source == c.source
        };
        if !cands.iter().any(|r| matches(r)) {
            let r = cands[0];
            return fw::fail(
                sig("stored-value"),
                format!("{q}: the tool decodes the constant as {} with source {:?}; the data file stores value {:?}, unit {:?} and source {:?}", d.results[0].short(), c.source, r.value.as_ref().map(|v| v.to_string()), r.unit.as_ref().map(obs::unit_parts_of_value), r.source),
            );
        }
        fw::pass(words.len() >= 2, fw::hash_str(&format!("{:?}", c.tokens)))
    }
    fn bounds(&self, _tier: Tier) -> serde_json::Value {
        let cs = refdb::constants();
        serde_json::json!({"constants": cs.len(), "max_words": cs.iter().map(|c| c.tokens.len()).max()})
    }
}
