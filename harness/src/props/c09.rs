//! C09 — temperature scales convert by their defining affine formulas.

use crate::fw::{self, Case, Env, Prop, Tier, Verdict};
use crate::obs::{self, Res, UKey};
use crate::refcalc::ref_decimal;
use crate::units;
use num::{BigInt, BigRational};

pub struct C09;

const MAGS: [&str; 12] = ["-459.67", "-273.15", "-40", "0", "0.01", "32", "37", "98.6", "100", "212", "1e3", "0.333333333333"];
const SCALES: [(&str, char); 6] = [("K", 'K'), ("kelvin", 'K'), ("°C", 'C'), ("celsius", 'C'), ("°F", 'F'), ("fahrenheit", 'F')];

fn r(n: i64, d: i64) -> BigRational {
    BigRational::new(BigInt::from(n), BigInt::from(d))
}

/// x on scale `from` expressed in kelvin
fn tables_scale(s: &str) -> BigRational {
    crate::tables::parse_scale(s)
}

fn to_k(x: &BigRational, from: char) -> BigRational {
    match from {
        'K' => x.clone(),
        'C' => x + r(27315, 100),
        _ => (x - r(32, 1)) * r(5, 9) + r(27315, 100),
    }
}

fn from_k(k: &BigRational, to: char) -> BigRational {
    match to {
        'K' => k.clone(),
        'C' => k - r(27315, 100),
        _ => (k - r(27315, 100)) * r(9, 5) + r(32, 1),
    }
}

fn scale_of_key(k: &UKey) -> Option<char> {
    match k {
        UKey::Base(b) if b == "Kelvin" => Some('K'),
        UKey::Derived(0xde39ff06) => Some('C'),
        UKey::Derived(0x3a824baa) => Some('F'),
        _ => None,
    }
}

impl Prop for C09 {
    fn id(&self) -> &'static str {
        "C09"
    }
    fn rule(&self) -> String {
        "12 magnitudes (absolute zero, -40, freezing/boiling points, fractions) x all 36 ordered pairs of the six scale spellings (K kelvin °C celsius °F fahrenheit) as direct conversions; all chains x S1 to S2 to S3 [to S4] over the three scales (thorough: all six spellings); exact inverse; sums and differences of two temperatures over all 36 spelling pairs (the right operand converted to the left scale by the affine formulas); several casts of one scale pair in one query (a difference of two casts, two and three results); prefixed scales (m k n G milli kilo on K/°C/°F and their long names: every ordered pair of 21 words x 5 magnitudes, and chains through a prefixed scale; judged only when the tool reads the word as that prefixed scale); scales not alone with power one: S^n (n in -3..3 except 1), S*u, S/u, u/S, u*S*v with u,v in {m,s,J,kg} converted to the same shape over another scale: result must be an error or the interval conversion (°C->K x1, °F->K x5/9 per power) and never contain the zero-point offset. Non-trivial = source and target scale differ; distinct = distinct query strings".into()
    }
    fn assumptions(&self) -> Vec<String> {
        vec!["K = C + 273.15 and C = (F - 32) * 5/9 are written out in the harness, independent of src/units/temperature.rs".into()]
    }
    fn generate(&self, tier: Tier, sink: &mut dyn FnMut(Case)) {
        for x in MAGS {
            for (a, _) in SCALES {
                for (b, _) in SCALES {
                    sink(Case::with("direct", format!("{x} {a} to {b}"), serde_json::json!({"x": x, "chain": [a, b]})));
                }
            }
        }
        if tier == Tier::Thorough {
            // a fine magnitude grid: every multiple of 1/8 from -500 to 1000 (absolute zero of each
            // scale, the crossing point -40, freezing and boiling points all lie on it or between two
            // neighbours) over the nine ordered pairs of the three scales
            for k in -4000i64..=8000 {
                let (neg, a) = (k < 0, k.abs() * 125);
                let x = format!("{}{}.{:03}", if neg { "-" } else { "" }, a / 1000, a % 1000);
                for a in ["K", "°C", "°F"] {
                    for b in ["K", "°C", "°F"] {
                        sink(Case::with("direct-grid", format!("{x} {a} to {b}"), serde_json::json!({"x": x, "chain": [a, b]})));
                    }
                }
            }
            // chains of five casts over the three scales
            let s3 = ["K", "°C", "°F"];
            for x in ["-40", "0", "98.6"] {
                for a in s3 {
                    for b in s3 {
                        for c in s3 {
                            for d in s3 {
                                for e in s3 {
                                    sink(Case::with("chain5", format!("{x} {a} to {b} to {c} to {d} to {e}"), serde_json::json!({"x": x, "chain": [a, b, c, d, e]})));
                                }
                            }
                        }
                    }
                }
            }
        }
        let sc: Vec<&str> = match tier {
            Tier::Quick => vec!["K", "°C", "°F"],
            Tier::Thorough => SCALES.iter().map(|s| s.0).collect(),
        };
        for x in ["-40", "0", "37", "98.6", "-459.67"] {
            for a in &sc {
                for b in &sc {
                    for c in &sc {
                        sink(Case::with("chain3", format!("{x} {a} to {b} to {c}"), serde_json::json!({"x": x, "chain": [a, b, c]})));
                        for d in &sc {
                            sink(Case::with("chain4", format!("{x} {a} to {b} to {c} to {d}"), serde_json::json!({"x": x, "chain": [a, b, c, d]})));
                        }
                    }
                }
            }
        }
        // prefixed scales: a prefixed kelvin / degree is that many kelvins / degrees ("for every magnitude";
        // the prefix scales the number on its own scale, the zero point is added on the unprefixed scale)
        let sym_scales = [("K", 'K'), ("°C", 'C'), ("°F", 'F')];
        let long_scales = [("kelvin", 'K'), ("celsius", 'C'), ("fahrenheit", 'F')];
        let all_pfx: Vec<(&str, i64)> = std::iter::once(("", 0i64)).chain(crate::tables::PREFIXES.iter().map(|p| (p.0, p.2 as i64))).collect();
        let sym_pfx: Vec<(&str, i64)> = if tier == Tier::Thorough { all_pfx } else { vec![("", 0i64), ("m", -3), ("k", 3), ("n", -9), ("G", 9)] };
        let long_pfx = [("", 0i64), ("milli", -3), ("kilo", 3)];
        let mut words: Vec<(String, char, i64)> = Vec::new();
        for (s, k) in sym_scales {
            for (p, e) in sym_pfx.iter().copied() {
                words.push((format!("{p}{s}"), k, e));
            }
        }
        for (s, k) in long_scales {
            for (p, e) in long_pfx {
                if !p.is_empty() {
                    words.push((format!("{p}{s}"), k, e));
                }
            }
        }
        let j = |w: &(String, char, i64)| serde_json::json!([w.0, w.1.to_string(), w.2]);
        for x in ["0", "1", "-40", "273.15", "37"] {
            for a in &words {
                for b in &words {
                    if a.2 == 0 && b.2 == 0 {
                        continue;
                    }
                    sink(Case::with("pfx-direct", format!("{x} {} to {}", a.0, b.0), serde_json::json!({"x": x, "pchain": [j(a), j(b)]})));
                }
            }
        }
        let plain: Vec<(String, char, i64)> = sym_scales.iter().map(|(s, k)| (s.to_string(), *k, 0)).collect();
        for x in ["25", "-40", "0.5"] {
            for a in &plain {
                for c in &plain {
                    for b in words.iter().filter(|w| w.2 != 0) {
                        sink(Case::with("pfx-chain", format!("{x} {} to {} to {}", a.0, b.0, c.0), serde_json::json!({"x": x, "pchain": [j(a), j(b), j(c)]})));
                    }
                }
            }
        }
        // several casts of one scale pair inside one query (a difference, and a query with several
        // results): each cast must convert its own operand
        for (a, ka) in sym_scales {
            for (b, kb) in sym_scales {
                if a == b {
                    continue;
                }
                for (x, y) in [("20", "10"), ("10", "30"), ("-40", "100"), ("0.5", "273.15")] {
                    let d = serde_json::json!({"x": x, "y": y, "a": ka.to_string(), "b": kb.to_string()});
                    sink(Case::with("multi-sub", format!("({x} {a} to {b}) - ({y} {a} to {b})"), d.clone()));
                    sink(Case::with("multi-res", format!("({x} {a} to {b}) ({y} {a} to {b})"), d.clone()));
                    sink(Case::with("multi-res", format!("({x} {a} to {b}) ({y} {a} to {b}) ({x} {a} to {b})"), d));
                }
            }
        }
        // + and - between temperatures: the tool converts the right operand to the left operand's
        // scale (documented add/sub semantics) - that conversion must be the affine one
        for (a, ka) in SCALES {
            for (b, kb) in SCALES {
                for (x, y) in [("50", "10"), ("300", "10"), ("-40", "-40"), ("0.5", "98.6"), ("1e30", "1")] {
                    for op in ["+", "-"] {
                        sink(Case::with("sum", format!("{x} {a} {op} {y} {b}"), serde_json::json!({"x": x, "y": y, "a": ka.to_string(), "b": kb.to_string(), "op": op})));
                        // ... and the sum or difference converted afterwards: a conversion applies to
                        // the magnitude computed, however it was written (`to` binds loosest, so the
                        // parentheses are optional)
                        for (t, kt) in sym_scales {
                            let d = serde_json::json!({"x": x, "y": y, "a": ka.to_string(), "b": kb.to_string(), "op": op, "t": kt.to_string()});
                            sink(Case::with("sum-cast", format!("({x} {a} {op} {y} {b}) to {t}"), d.clone()));
                            sink(Case::with("sum-cast", format!("{x} {a} {op} {y} {b} to {t}"), d));
                        }
                    }
                }
            }
        }
        // not alone with power one
        let others = ["m", "s", "J", "kg"];
        let pairs = [("°C", "K"), ("K", "°C"), ("°F", "K"), ("K", "°F"), ("°C", "°F"), ("°F", "°C"), ("celsius", "kelvin"), ("fahrenheit", "celsius")];
        for (a, b) in pairs {
            for x in ["1", "10", "-3.5"] {
                for n in [-3i64, -2, -1, 2, 3] {
                    sink(Case::with("power", format!("{x} {a}^{n} to {b}^{n}"), serde_json::json!({"x": x, "a": a, "b": b, "n": n})));
                }
                for u in others {
                    for (sa, sb, n) in [
                        (format!("{a}*{u}"), format!("{b}*{u}"), 1i64),
                        (format!("{u}*{a}"), format!("{u}*{b}"), 1),
                        (format!("{a}/{u}"), format!("{b}/{u}"), 1),
                        (format!("{u}/{a}"), format!("{u}/{b}"), -1),
                        (format!("{u} {a}"), format!("{u} {b}"), 1),
                    ] {
                        sink(Case::with("mixed", format!("{x} {sa} to {sb}"), serde_json::json!({"x": x, "a": a, "b": b, "n": n})));
                    }
                    for v in others {
                        if u != v {
                            sink(Case::with("mixed", format!("{x} {u}*{a}*{v} to {u}*{b}*{v}"), serde_json::json!({"x": x, "a": a, "b": b, "n": 1})));
                            sink(Case::with("mixed", format!("{x} {u}/{a}/{v} to {u}/{b}/{v}"), serde_json::json!({"x": x, "a": a, "b": b, "n": -1})));
                        }
                    }
                }
            }
        }
        // ... and when the rest of the compound is converted in the same cast (a prefix or a
        // conversion factor on the other unit): the factor of that part exactly once, no offset
        for (a, b) in pairs {
            for x in ["5", "-3.5"] {
                for (u1, u2, k, kinv) in [("km", "m", "1000", "1/1000"), ("m", "km", "1/1000", "1000"), ("mi", "km", "1609344/1000000", "1000000/1609344"), ("kJ", "J", "1000", "1/1000"), ("min", "s", "60", "1/60"), ("ft", "in", "12", "1/12")] {
                    sink(Case::with("mixed", format!("{x} {u1}/{a} to {u2}/{b}"), serde_json::json!({"x": x, "a": a, "b": b, "n": -1, "k": k})));
                    sink(Case::with("mixed", format!("{x} {u1}*{a} to {u2}*{b}"), serde_json::json!({"x": x, "a": a, "b": b, "n": 1, "k": k})));
                    sink(Case::with("mixed", format!("{x} {a}/{u1} to {b}/{u2}"), serde_json::json!({"x": x, "a": a, "b": b, "n": 1, "k": kinv})));
                }
            }
        }
        // ... and when the other factors of the compound cancel among themselves (by dimension, not
        // by name: N*m/J): the degree is still a factor of a product, on either side of the cast
        for (a, b) in pairs {
            for x in ["20", "-3.5"] {
                for (pre, post) in [("N*m*", "/J"), ("W*s*", "/J"), ("V*A*", "/W"), ("J*", "/N*m")] {
                    // (with the kelvin in the product and a lone offset scale as the target, the offset
                    // scale *is* alone with power one: not the statement's case)
                    if a != "K" && a != "kelvin" {
                        sink(Case::with("mixed", format!("{x} {pre}{a}{post} to {b}"), serde_json::json!({"x": x, "a": a, "b": b, "n": 1})));
                    }
                    sink(Case::with("mixed", format!("{x} {pre}{a}{post} to {pre}{b}{post}"), serde_json::json!({"x": x, "a": a, "b": b, "n": 1})));
                }
            }
        }
        // products/quotients of two temperatures must not apply offsets either
        for x in ["1", "20"] {
            for (a, b) in pairs {
                sink(Case::with("mixed", format!("{x} {a}*{a} to {b}*{b}"), serde_json::json!({"x": x, "a": a, "b": b, "n": 2})));
            }
        }
    }
    fn check(&self, env: &mut Env, case: &Case) -> Verdict {
        let q = &case.key;
        if case.fam == "sum" {
            let ch = |k: &str| case.data[k].as_str().unwrap().chars().next().unwrap();
            let (a, b) = (ch("a"), ch("b"));
            let x = ref_decimal(case.data["x"].as_str().unwrap()).unwrap();
            let y_in_a = from_k(&to_k(&ref_decimal(case.data["y"].as_str().unwrap()).unwrap(), b), a);
            let want = if case.data["op"] == "+" { &x + &y_in_a } else { &x - &y_in_a };
            return match obs::eval_one(env.db(), q) {
                Ok(Res::Ok { value, unit, unit_text }) => {
                    if unit.len() != 1 || unit[0].1 != 1 || unit[0].2 != 0 || scale_of_key(&unit[0].0) != Some(a) {
                        return fw::fail(format!("sum:{a}{b}:unit"), format!("{q}: result is not on the left operand's scale: [{unit_text}]"));
                    }
                    if value != want {
                        return fw::fail(format!("sum:{a}{b}:value"), format!("{q}: the right operand is {y_in_a} on the left scale, so the result must be {want}; got {value}"));
                    }
                    fw::pass(a != b, fw::hash_str(&want.to_string()))
                }
                Ok(Res::Err { msg, .. }) => fw::fail(format!("sum:{a}{b}:refused"), format!("{q}: refused: {msg}")),
                Err(why) => fw::fail("results:sum", format!("{q}: {why}")),
            };
        }
        if case.fam == "sum-cast" {
            let ch = |k: &str| case.data[k].as_str().unwrap().chars().next().unwrap();
            let (a, b, t) = (ch("a"), ch("b"), ch("t"));
            let x = ref_decimal(case.data["x"].as_str().unwrap()).unwrap();
            let y_in_a = from_k(&to_k(&ref_decimal(case.data["y"].as_str().unwrap()).unwrap(), b), a);
            let sum = if case.data["op"] == "+" { &x + &y_in_a } else { &x - &y_in_a };
            let want = from_k(&to_k(&sum, a), t);
            return match obs::eval_one(env.db(), q) {
                Ok(Res::Ok { value, unit, unit_text }) => {
                    if unit.len() != 1 || unit[0].1 != 1 || unit[0].2 != 0 || scale_of_key(&unit[0].0) != Some(t) {
                        return fw::fail(format!("sum-cast:{a}{b}->{t}:unit"), format!("{q}: result is not on the target scale: [{unit_text}]"));
                    }
                    if value != want {
                        return fw::fail(format!("sum-cast:{a}{b}->{t}:value"), format!("{q}: the sum is {sum} on the left operand's scale, which is {want} on the target scale; got {value}"));
                    }
                    fw::pass(a != t, fw::hash_str(&want.to_string()))
                }
                Ok(Res::Err { msg, .. }) => fw::fail(format!("sum-cast:{a}{b}->{t}:refused"), format!("{q}: refused: {msg}")),
                Err(why) => fw::fail("results:sum-cast", format!("{q}: {why}")),
            };
        }
        if case.fam == "multi-res" || case.fam == "multi-sub" {
            let ch = |k: &str| case.data[k].as_str().unwrap().chars().next().unwrap();
            let (a, b) = (ch("a"), ch("b"));
            let cx = from_k(&to_k(&ref_decimal(case.data["x"].as_str().unwrap()).unwrap(), a), b);
            let cy = from_k(&to_k(&ref_decimal(case.data["y"].as_str().unwrap()).unwrap(), a), b);
            let want: Vec<BigRational> = if case.fam == "multi-sub" { vec![&cx - &cy] } else if q.matches(" to ").count() == 3 { vec![cx.clone(), cy, cx] } else { vec![cx, cy] };
            let got = match obs::eval(env.db(), q) {
                Some(r) => r,
                None => return fw::fail(format!("results:{}", case.fam), format!("{q}: parse failed")),
            };
            if got.len() != want.len() {
                return fw::fail(format!("results:{}", case.fam), format!("{q}: {} results, expected {}", got.len(), want.len()));
            }
            for (i, (g, w)) in got.iter().zip(want.iter()).enumerate() {
                match g {
                    Res::Ok { value, unit, unit_text } => {
                        if unit.len() != 1 || unit[0].1 != 1 || unit[0].2 != 0 || scale_of_key(&unit[0].0) != Some(b) {
                            return fw::fail(format!("{}:{a}->{b}:unit", case.fam), format!("{q}: result #{i} is not in the target scale: [{unit_text}]"));
                        }
                        if value != w {
                            return fw::fail(format!("{}:{a}->{b}:value", case.fam), format!("{q}: result #{i}: expected {w}, got {value} (each cast converts its own operand)"));
                        }
                    }
                    Res::Err { msg, .. } => return fw::fail(format!("{}:{a}->{b}:refused", case.fam), format!("{q}: result #{i} refused: {msg}")),
                }
            }
            return fw::pass(true, fw::hash_str(q));
        }
        let got = match obs::eval_one(env.db(), q) {
            Ok(r) => r,
            Err(why) => return fw::fail(format!("results:{}", case.fam), format!("{q}: {why}")),
        };
        let x = ref_decimal(case.data["x"].as_str().unwrap()).unwrap();
        let kind = |s: &str| SCALES.iter().find(|e| e.0 == s).map(|e| e.1).unwrap();
        match case.fam {
            "pfx-direct" | "pfx-chain" => {
                let chain: Vec<(String, char, i64)> = case.data["pchain"]
                    .as_array()
                    .unwrap()
                    .iter()
                    .map(|e| (e[0].as_str().unwrap().to_string(), e[1].as_str().unwrap().chars().next().unwrap(), e[2].as_i64().unwrap()))
                    .collect();
                // judged only when the tool itself reads every word as that prefixed scale
                // (`mK` may legitimately be read as metre*kelvin: C05 allows any valid reading)
                for (w, k, p) in &chain {
                    match obs::eval_one(env.db(), &format!("1 {w}")) {
                        Ok(Res::Ok { unit, .. }) if unit.len() == 1 && unit[0].1 == 1 && unit[0].2 as i64 == *p && scale_of_key(&unit[0].0) == Some(*k) => {}
                        _ => return Verdict::DontCare("word not read as a prefixed temperature scale"),
                    }
                }
                let (from, to) = (&chain[0], &chain[chain.len() - 1]);
                let want = from_k(&to_k(&(&x * obs::pow10(from.2)), from.1), to.1) / obs::pow10(to.2);
                let sig = format!("{}:{}->{}:", case.fam, from.1, to.1);
                match &got {
                    Res::Ok { value, unit, unit_text } => {
                        if unit.len() != 1 || unit[0].1 != 1 || unit[0].2 as i64 != to.2 || scale_of_key(&unit[0].0) != Some(to.1) {
                            return fw::fail(format!("{sig}unit"), format!("{q}: result is not in the target scale and prefix: [{unit_text}]"));
                        }
                        if *value != want {
                            return fw::fail(format!("{sig}value"), format!("{q}: expected {want}, got {value}"));
                        }
                        fw::pass(true, fw::hash_str(&want.to_string()))
                    }
                    Res::Err { msg, .. } => fw::fail(format!("{sig}refused"), format!("{q}: refused: {msg}")),
                }
            }
            "direct" | "direct-grid" | "chain3" | "chain4" | "chain5" => {
                let chain: Vec<&str> = case.data["chain"].as_array().unwrap().iter().map(|v| v.as_str().unwrap()).collect();
                let (from, to) = (kind(chain[0]), kind(chain[chain.len() - 1]));
                let want = from_k(&to_k(&x, from), to);
                let sig = format!("{}:{}->{}", case.fam, chain.iter().map(|c| kind(c).to_string()).collect::<Vec<_>>().join(""), "");
                match &got {
                    Res::Ok { value, unit, unit_text } => {
                        if unit.len() != 1 || unit[0].1 != 1 || unit[0].2 != 0 || scale_of_key(&unit[0].0) != Some(to) {
                            return fw::fail(format!("{sig}unit"), format!("{q}: result is not in the target scale: [{unit_text}]"));
                        }
                        if *value != want {
                            return fw::fail(format!("{sig}value"), format!("{q}: expected {want}, got {value}"));
                        }
                        fw::pass(from != to, fw::hash_str(&want.to_string()))
                    }
                    Res::Err { msg, .. } => fw::fail(format!("{sig}refused"), format!("{q}: refused: {msg}")),
                }
            }
            _ => {
                // scale not alone with power one: error, or interval conversion
                let (a, b) = (kind(case.data["a"].as_str().unwrap()), kind(case.data["b"].as_str().unwrap()));
                let n = case.data["n"].as_i64().unwrap();
                match &got {
                    Res::Err { .. } => fw::pass(true, 1),
                    Res::Ok { value, unit, .. } => {
                        let interval = |s: char| if s == 'F' { r(5, 9) } else { r(1, 1) };
                        let f = crate::obs::rpow(&(interval(a) / interval(b)), n).unwrap();
                        // the other units of the compound may be converted as well (factor `k`)
                        let k = case.data.get("k").and_then(|k| k.as_str()).map(tables_scale).unwrap_or_else(|| r(1, 1));
                        let want = &x * f * k;
                        if *value == want {
                            // must also carry the target shape
                            let _ = units::has_affine(unit);
                            fw::pass(true, fw::hash_str(&want.to_string()))
                        } else {
                            fw::fail(
                                format!("offset-applied:{}:{a}->{b}:n={n}", case.fam),
                                format!("{q}: the scale is not alone with power one, so the result must be an error or the interval conversion {want}; got {value} (an offset or wrong factor was applied)"),
                            )
                        }
                    }
                }
            }
        }
    }
    fn bounds(&self, tier: Tier) -> serde_json::Value {
        serde_json::json!({"magnitudes": 12, "chain_length_max": tier.pick(4, 5), "magnitude_grid": tier.pick("12 magnitudes", "12 magnitudes + every multiple of 1/8 in -500..1000"), "prefix_symbols": tier.pick(4, 20), "chain_scales": tier.pick(3, 6), "powers": "-3..3"})
    }
}
