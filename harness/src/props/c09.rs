//! C09 — temperature scales convert by their defining affine formulas.

use crate::fw::{self, Case, Env, Prop, Tier, Verdict};
use crate::obs::{self, Res, UKey};
use crate::refcalc::ref_decimal;
use crate::units;
use num::{BigInt, BigRational};

pub struct C09;

const MAGS: [&str; 12] = ["-459.67", "-273.15", "-40", "0", "0.01", "32", "37", "98.6", "100", "212", "1e3", "0.333333333333"];
const SCALES: [(&str, char); 6] = [("K", 'K'), ("kelvin", 'K'), ("°C", 'C'), ("celsius", 'C'), ("°F", 'F'), ("fahrenheit", 'F')];

fn r(n: i64, d: i64) -> BigRational {
    BigRational::new(BigInt::from(n), BigInt::from(d))
}

/// x on scale `from` expressed in kelvin
fn to_k(x: &BigRational, from: char) -> BigRational {
    match from {
        'K' => x.clone(),
        'C' => x + r(27315, 100),
        _ => (x - r(32, 1)) * r(5, 9) + r(27315, 100),
    }
}

fn from_k(k: &BigRational, to: char) -> BigRational {
    match to {
        'K' => k.clone(),
        'C' => k - r(27315, 100),
        _ => (k - r(27315, 100)) * r(9, 5) + r(32, 1),
    }
}

fn scale_of_key(k: &UKey) -> Option<char> {
    match k {
        UKey::Base(b) if b == "Kelvin" => Some('K'),
        UKey::Derived(0xde39ff06) => Some('C'),
        UKey::Derived(0x3a824baa) => Some('F'),
        _ => None,
    }
}

impl Prop for C09 {
    fn id(&self) -> &'static str {
        "C09"
    }
    fn rule(&self) -> String {
        "12 magnitudes (absolute zero, -40, freezing/boiling points, fractions) x all 36 ordered pairs of the six scale spellings (K kelvin °C celsius °F fahrenheit) as direct conversions; all chains x S1 to S2 to S3 [to S4] over the three scales (thorough: all six spellings); exact inverse; scales not alone with power one: S^n (n in -3..3 except 1), S*u, S/u, u/S, u*S*v with u,v in {m,s,J,kg} converted to the same shape over another scale: result must be an error or the interval conversion (°C->K x1, °F->K x5/9 per power) and never contain the zero-point offset. Non-trivial = source and target scale differ; distinct = distinct query strings".into()
    }
    fn assumptions(&self) -> Vec<String> {
        vec!["K = C + 273.15 and C = (F - 32) * 5/9 are written out in the harness, independent of src/units/temperature.rs".into()]
    }
    fn generate(&self, tier: Tier, sink: &mut dyn FnMut(Case)) {
        for x in MAGS {
            for (a, _) in SCALES {
                for (b, _) in SCALES {
                    sink(Case::with("direct", format!("{x} {a} to {b}"), serde_json::json!({"x": x, "chain": [a, b]})));
                }
            }
        }
        let sc: Vec<&str> = match tier {
            Tier::Quick => vec!["K", "°C", "°F"],
            Tier::Thorough => SCALES.iter().map(|s| s.0).collect(),
        };
        for x in ["-40", "0", "37", "98.6", "-459.67"] {
            for a in &sc {
                for b in &sc {
                    for c in &sc {
                        sink(Case::with("chain3", format!("{x} {a} to {b} to {c}"), serde_json::json!({"x": x, "chain": [a, b, c]})));
                        for d in &sc {
                            sink(Case::with("chain4", format!("{x} {a} to {b} to {c} to {d}"), serde_json::json!({"x": x, "chain": [a, b, c, d]})));
                        }
                    }
                }
            }
        }
        // not alone with power one
        let others = ["m", "s", "J", "kg"];
        let pairs = [("°C", "K"), ("K", "°C"), ("°F", "K"), ("K", "°F"), ("°C", "°F"), ("°F", "°C"), ("celsius", "kelvin"), ("fahrenheit", "celsius")];
        for (a, b) in pairs {
            for x in ["1", "10", "-3.5"] {
                for n in [-3i64, -2, -1, 2, 3] {
                    sink(Case::with("power", format!("{x} {a}^{n} to {b}^{n}"), serde_json::json!({"x": x, "a": a, "b": b, "n": n})));
                }
                for u in others {
                    for (sa, sb, n) in [
                        (format!("{a}*{u}"), format!("{b}*{u}"), 1i64),
                        (format!("{u}*{a}"), format!("{u}*{b}"), 1),
                        (format!("{a}/{u}"), format!("{b}/{u}"), 1),
                        (format!("{u}/{a}"), format!("{u}/{b}"), -1),
                        (format!("{u} {a}"), format!("{u} {b}"), 1),
                    ] {
                        sink(Case::with("mixed", format!("{x} {sa} to {sb}"), serde_json::json!({"x": x, "a": a, "b": b, "n": n})));
                    }
                    for v in others {
                        if u != v {
                            sink(Case::with("mixed", format!("{x} {u}*{a}*{v} to {u}*{b}*{v}"), serde_json::json!({"x": x, "a": a, "b": b, "n": 1})));
                            sink(Case::with("mixed", format!("{x} {u}/{a}/{v} to {u}/{b}/{v}"), serde_json::json!({"x": x, "a": a, "b": b, "n": -1})));
                        }
                    }
                }
            }
        }
        // products/quotients of two temperatures must not apply offsets either
        for x in ["1", "20"] {
            for (a, b) in pairs {
                sink(Case::with("mixed", format!("{x} {a}*{a} to {b}*{b}"), serde_json::json!({"x": x, "a": a, "b": b, "n": 2})));
            }
        }
    }
    fn check(&self, env: &mut Env, case: &Case) -> Verdict {
        let q = &case.key;
        let got = match obs::eval_one(env.db(), q) {
            Ok(r) => r,
            Err(why) => return fw::fail(format!("results:{}", case.fam), format!("{q}: {why}")),
        };
        let x = ref_decimal(case.data["x"].as_str().unwrap()).unwrap();
        let kind = |s: &str| SCALES.iter().find(|e| e.0 == s).map(|e| e.1).unwrap();
        match case.fam {
            "direct" | "chain3" | "chain4" => {
                let chain: Vec<&str> = case.data["chain"].as_array().unwrap().iter().map(|v| v.as_str().unwrap()).collect();
                let (from, to) = (kind(chain[0]), kind(chain[chain.len() - 1]));
                let want = from_k(&to_k(&x, from), to);
                let sig = format!("{}:{}->{}", case.fam, chain.iter().map(|c| kind(c).to_string()).collect::<Vec<_>>().join(""), "");
                match &got {
                    Res::Ok { value, unit, unit_text } => {
                        if unit.len() != 1 || unit[0].1 != 1 || unit[0].2 != 0 || scale_of_key(&unit[0].0) != Some(to) {
                            return fw::fail(format!("{sig}unit"), format!("{q}: result is not in the target scale: [{unit_text}]"));
                        }
                        if *value != want {
                            return fw::fail(format!("{sig}value"), format!("{q}: expected {want}, got {value}"));
                        }
                        fw::pass(from != to, fw::hash_str(&want.to_string()))
                    }
                    Res::Err { msg, .. } => fw::fail(format!("{sig}refused"), format!("{q}: refused: {msg}")),
                }
            }
            _ => {
                // scale not alone with power one: error, or interval conversion
                let (a, b) = (kind(case.data["a"].as_str().unwrap()), kind(case.data["b"].as_str().unwrap()));
                let n = case.data["n"].as_i64().unwrap();
                match &got {
                    Res::Err { .. } => fw::pass(true, 1),
                    Res::Ok { value, unit, .. } => {
                        let interval = |s: char| if s == 'F' { r(5, 9) } else { r(1, 1) };
                        let f = crate::obs::rpow(&(interval(a) / interval(b)), n).unwrap();
                        let want = &x * f;
                        if *value == want {
                            // must also carry the target shape
                            let _ = units::has_affine(unit);
                            fw::pass(true, fw::hash_str(&want.to_string()))
                        } else {
                            fw::fail(
                                format!("offset-applied:{}:{a}->{b}:n={n}", case.fam),
                                format!("{q}: the scale is not alone with power one, so the result must be an error or the interval conversion {want}; got {value} (an offset or wrong factor was applied)"),
                            )
                        }
                    }
                }
            }
        }
    }
    fn bounds(&self, tier: Tier) -> serde_json::Value {
        serde_json::json!({"magnitudes": 12, "chain_length_max": 4, "chain_scales": tier.pick(3, 6), "powers": "-3..3"})
    }
}
