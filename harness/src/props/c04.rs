//! C04 — products, quotients and integer powers of quantities are
//! dimensionally exact.

use crate::exprcheck;
use crate::fw::{Case, Env, Prop, Tier, Verdict};
use crate::refcalc::{bin, from_json, num, paren, qty, to_json, Expr, Op};
use crate::tables;

pub struct C04;

/// quantity spellings (literal, unit)
pub const QUANT: [(&str, &str); 71] = [
    ("3", "N"), ("10", "kg"), ("2", "km^2"), ("5", "m/s^2"), ("1", "Wb"), ("2", "V"), ("3", "mA"), ("1", "btu"), ("2", "h"), ("4", "l"),
    ("7", "m"), ("0.5", "s"), ("6", "J"), ("12", "W"), ("9", "Pa"), ("2", "C"), ("3", "F"), ("5", "ohm"), ("2", "T"), ("4", "H"),
    ("8", "ft"), ("3", "lb"), ("2", "gal"), ("1.5", "acre"), ("60", "km/h"), ("2", "kWh"), ("3", "N*m"), ("7", "kg*m/s^2"), ("2", "mol"), ("5", "cd"),
    ("3", "K"), ("1", "au"), ("2", "c"), ("4", "kt"), ("9", "Hz"), ("2", "B"), ("6", "min"), ("3", "cm^3"), ("-2", "m^-1"), ("10", "g"),
    // one unit under several prefixes and powers; prefixed bases; derived-per-base compounds
    ("1", "km"), ("5", "cm"), ("2", "mm^2"), ("1", "dm^3"), ("3", "Gm"), ("500", "mg"), ("3", "ns"), ("7", "m^2"), ("3", "cm^2"), ("2", "N/kg"),
    ("3", "kJ/kg"), ("2", "N/m"), ("5", "J/g"), ("4", "W/cm^2"), ("2", "N/cm"), ("6", "km/s^2"),
    // one prefix on two units of one compound, under different powers
    ("1", "mm/ms"), ("2", "km/ks"), ("3", "kN/km^2"), ("2", "mN*mm"), ("5", "kg*km/ks^2"), ("1", "mm^2/ms"), ("4", "kW/km^2"),
    // a prefix on a unit with a conversion factor, under a power other than one
    ("3", "kbtu^2"), ("2", "kft^2"), ("1", "J/kbtu"), ("5", "mgal^3"), ("2", "kyd^-2"),
    // units without a numerator part, one of them under a prefix
    ("2", "s^-1"), ("3", "ms^-1"), ("4", "km^-1"),
];

fn quants() -> Vec<Expr> {
    QUANT.iter().filter(|(_, u)| *u != "Hz").map(|(l, u)| qty(l, u)).collect()
}

fn emit(fam: &'static str, e: &Expr, sink: &mut dyn FnMut(Case)) {
    sink(Case::with(fam, e.render(), to_json(e)));
}

impl Prop for C04 {
    fn id(&self) -> &'static str {
        "C04"
    }
    fn rule(&self) -> String {
        "62 quantity spellings (base, derived, prefixed, powered, compound, imperial, one unit under several prefixes and powers, derived-per-base compounds, one prefix on two units of a compound under different powers); one unit under two prefixes and two powers on either side of * and / (7 prefixes x powers 1..3, squared); zero-valued quantities, written and computed, under ^n (n in -3..3), * and / ; a temperature on an offset scale as a factor or divisor next to 8 other quantities in both operand orders (the product of the operands' SI values with the degree read as an interval or as an absolute temperature, the result's degrees read as intervals; refusal not judged); all ordered pairs x {*, /} with the right operand bare and parenthesised; all triples over a 15-spelling core x {*,/}^2 x both groupings; (q)^n for every spelling and n in -3..3; every documented unit name with prefix none/k/m as (2 u)^n. Compared in SI normal form (value and base dimensions) with the reference evaluation of the tree; the displayed unit is never compared. Non-trivial = at least one operator applied to a quantity with a non-empty unit; distinct = distinct query strings".into()
    }
    fn assumptions(&self) -> Vec<String> {
        vec!["unit scales come from the independent table (tables.rs), documented meanings".into(), "offset scales (°C, °F) are C09's subject".into()]
    }
    fn generate(&self, tier: Tier, sink: &mut dyn FnMut(Case)) {
        let q = quants();
        for a in &q {
            for b in &q {
                for op in [Op::Mul, Op::Div] {
                    emit("pair", &bin(a.clone(), op, b.clone()), sink);
                    emit("pair-paren", &bin(a.clone(), op, paren(b.clone())), sink);
                    emit("pair-paren", &bin(paren(a.clone()), op, b.clone()), sink);
                }
            }
        }
        // thorough: every triple over the whole quantity list, and quadruples over a 10-quantity core
        let core: Vec<Expr> = q.iter().take(tier.pick(12, q.len())).cloned().collect();
        if tier == Tier::Thorough {
            let c4: Vec<Expr> = q.iter().take(10).cloned().collect();
            let ops = [Op::Mul, Op::Div];
            for a in &c4 {
                for b in &c4 {
                    for c in &c4 {
                        for d in &c4 {
                            for o1 in ops {
                                for o2 in ops {
                                    for o3 in ops {
                                        emit("quad", &bin(paren(bin(paren(bin(a.clone(), o1, b.clone())), o2, c.clone())), o3, d.clone()), sink);
                                        emit("quad", &bin(a.clone(), o1, paren(bin(b.clone(), o2, paren(bin(c.clone(), o3, d.clone()))))), sink);
                                        emit("quad", &bin(paren(bin(a.clone(), o1, b.clone())), o2, paren(bin(c.clone(), o3, d.clone()))), sink);
                                    }
                                }
                            }
                        }
                    }
                }
            }
        }
        for a in &core {
            for b in &core {
                for c in &core {
                    for o1 in [Op::Mul, Op::Div] {
                        for o2 in [Op::Mul, Op::Div] {
                            emit("triple", &bin(paren(bin(a.clone(), o1, b.clone())), o2, c.clone()), sink);
                            emit("triple", &bin(a.clone(), o1, paren(bin(b.clone(), o2, c.clone()))), sink);
                        }
                    }
                }
            }
        }
        let pmax = tier.pick(3i64, 6i64);
        for a in &q {
            for n in -pmax..=pmax {
                emit("power", &bin(paren(a.clone()), Op::Pow, num(&n.to_string())), sink);
                // power equals repeated multiplication: also as a product of powers
                emit("power", &bin(paren(bin(paren(a.clone()), Op::Pow, num(&n.to_string()))), Op::Mul, a.clone()), sink);
            }
        }
        // powers around the machine-word boundaries of a unit's exponent (i8, i16 halves) and the
        // product with the inverse power, on a base unit, a prefixed one, a derived one and one with a
        // conversion factor
        for (l, u) in [("2", "m"), ("2", "km"), ("3", "N"), ("2", "min"), ("0.5", "ft")] {
            for n in [7i64, 8, 15, 16, 31, 32, 63, 64, 100, 127, 128, 129, 255, 256, 300] {
                for n in [n, -n] {
                    let p = bin(paren(qty(l, u)), Op::Pow, num(&n.to_string()));
                    emit("power-wide", &p, sink);
                    emit("power-wide", &bin(p.clone(), Op::Mul, bin(paren(qty(l, u)), Op::Pow, num(&(-n).to_string()))), sink);
                    emit("power-wide", &bin(p.clone(), Op::Div, qty(l, u)), sink);
                }
            }
        }
        // written unit powers around the 16-bit boundaries (the value stays small): products and
        // quotients with a small power and with the inverse power
        for p in [32766i64, 32767, 32768, 32769, 40000, 65535, 65536, 65537, 70000] {
            for (u, inv, small) in [(format!("m^{p}"), format!("m^-{p}"), "m"), (format!("s^-{p}"), format!("s^{p}"), "s"), (format!("A^{p}"), format!("A^-{p}"), "A")] {
                emit("power-wide", &bin(qty("2", &u), Op::Mul, qty("3", small)), sink);
                emit("power-wide", &bin(qty("2", &u), Op::Div, qty("4", small)), sink);
                emit("power-wide", &bin(qty("2", &u), Op::Mul, qty("3", &inv)), sink);
            }
        }
        // zero-valued quantities (written and computed): the unit is raised / multiplied all the same,
        // a negative power or a division by them is an error
        for w in ["m", "s", "kg", "N", "ft", "km", "btu"] {
            for n in -3..=3i64 {
                emit("zero", &bin(paren(qty("0", w)), Op::Pow, num(&n.to_string())), sink);
                emit("zero", &bin(paren(bin(qty("1", w), Op::Sub, qty("1", w))), Op::Pow, num(&n.to_string())), sink);
            }
            for v in ["s", "m", "J"] {
                emit("zero", &bin(qty("0", w), Op::Mul, qty("3", v)), sink);
                emit("zero", &bin(qty("3", v), Op::Mul, qty("0", w)), sink);
                emit("zero", &bin(qty("0", w), Op::Div, qty("3", v)), sink);
                emit("zero", &bin(qty("3", v), Op::Div, qty("0", w)), sink);
                emit("zero", &bin(qty("3", v), Op::Div, paren(bin(qty("2", w), Op::Sub, qty("2", w)))), sink);
            }
        }
        // one unit under two prefixes and two powers on either side of * and / (in particular
        // pairs with equal prefix x power: km^2 vs Mm, cm^3 vs mm^2, dm^3 vs mm)
        let pfx: Vec<&str> = if tier == Tier::Thorough { std::iter::once("").chain(tables::PREFIXES.iter().map(|p| p.0).filter(|p| tables::typeable(p))).collect() } else { vec!["", "k", "G", "c", "m", "d", "n"] };
        for u in ["m", "s", "g"].iter().take(tier.pick(2, 3)) {
            for p1 in pfx.iter().copied() {
                for n1 in 1..=3i64 {
                    for p2 in pfx.iter().copied() {
                        for n2 in 1..=3i64 {
                            let (w1, w2) = (format!("{p1}{u}"), format!("{p2}{u}"));
                            if [&w1, &w2].iter().any(|w| w.len() > 1 && (crate::units::readings(w).len() != 1 || tables::find_by_name(w).is_some())) {
                                continue;
                            }
                            let a = qty("3", &if n1 == 1 { w1.clone() } else { format!("{w1}^{n1}") });
                            let b = qty("2", &if n2 == 1 { w2.clone() } else { format!("{w2}^{n2}") });
                            emit("same-unit-prefix-power", &bin(a.clone(), Op::Mul, b.clone()), sink);
                            emit("same-unit-prefix-power", &bin(a, Op::Div, b), sink);
                        }
                    }
                }
            }
        }
        // operands that are themselves results of a sum, a difference or a cast (their unit has been
        // through the tool's conversion machinery before it is raised and multiplied)
        let alt = |u: &str| match u {
            "m" => Some("km"),
            "s" => Some("min"),
            "kg" => Some("g"),
            "N" => Some("kg*m/s^2"),
            "J" => Some("N*m"),
            "km/h" => Some("m/s"),
            "kJ/kg" => Some("J/kg"),
            "W" => Some("J/s"),
            "Pa" => Some("N/m^2"),
            "l" => Some("dm^3"),
            "km^2" => Some("m^2"),
            "ft" => Some("m"),
            _ => None,
        };
        let rs = [("2", "m"), ("3", "kg"), ("0.5", "s"), ("3", "N"), ("2", "kJ/kg")];
        for (l, u) in QUANT.iter().take(tier.pick(30, QUANT.len())).filter(|(_, u)| *u != "Hz" && *u != "K") {
            let a = qty(l, u);
            let mut xs = vec![paren(bin(a.clone(), Op::Add, a.clone())), paren(bin(bin(a.clone(), Op::Add, a.clone()), Op::Sub, a.clone())), paren(crate::refcalc::to(a.clone(), u))];
            if let Some(t) = alt(u) {
                xs.push(paren(crate::refcalc::to(a.clone(), t)));
                xs.push(paren(bin(a.clone(), Op::Add, qty("1", t))));
            }
            for x in xs {
                for n in [2i64, 3, -1, -2] {
                    let p = bin(x.clone(), Op::Pow, num(&n.to_string()));
                    emit("carried", &p, sink);
                    emit("carried", &bin(paren(p.clone()), Op::Add, paren(p.clone())), sink);
                    for (rl, ru) in rs {
                        let r = qty(rl, ru);
                        emit("carried", &bin(p.clone(), Op::Mul, r.clone()), sink);
                        emit("carried", &bin(p.clone(), Op::Div, r.clone()), sink);
                        emit("carried", &bin(r.clone(), Op::Mul, p.clone()), sink);
                        emit("carried", &bin(r.clone(), Op::Div, paren(p.clone())), sink);
                    }
                }
                // and without a power in between
                for (rl, ru) in rs {
                    let r = qty(rl, ru);
                    emit("carried", &bin(x.clone(), Op::Mul, r.clone()), sink);
                    emit("carried", &bin(r.clone(), Op::Div, x.clone()), sink);
                }
            }
        }
        // written units whose base dimensions cancel completely but which carry a scale
        // (min/s = 60, kBq*s = 1000): dimensionless is not the same as unitless
        for (cl, cu) in [("2", "min/s"), ("2", "kBq*s"), ("2", "kN*s^2/kg*m"), ("3", "h/s"), ("5", "m/ft"), ("2", "Bq*s"), ("3", "mJ/N*m"), ("4", "l/cm^3"), ("2", "kHz*ms")] {
            let c = qty(cl, cu);
            for (rl, ru) in [("120", "m"), ("3", "kg"), ("0.5", "s"), ("6", "J"), ("2", "km/h"), ("3", "mA"), ("2", "min/s"), ("7", "")] {
                let r = if ru.is_empty() { num(rl) } else { qty(rl, ru) };
                emit("cancelling", &bin(c.clone(), Op::Mul, r.clone()), sink);
                emit("cancelling", &bin(r.clone(), Op::Mul, c.clone()), sink);
                emit("cancelling", &bin(c.clone(), Op::Div, r.clone()), sink);
                emit("cancelling", &bin(r.clone(), Op::Div, c.clone()), sink);
                emit("cancelling", &bin(bin(paren(c.clone()), Op::Pow, num("2")), Op::Mul, r.clone()), sink);
                emit("cancelling", &bin(bin(r.clone(), Op::Mul, c.clone()), Op::Div, c.clone()), sink);
            }
        }
        // a temperature on an offset scale as a factor: the product / quotient is the product of
        // the operands' SI values with the degree read as an interval or as an absolute
        // temperature - whichever the tool chooses, but the same arithmetic in both operand orders
        // and never anything else (refusing is C09's business and is not judged here)
        for s in ["°C", "°F", "celsius", "fahrenheit"] {
            for x in ["10", "-40", "0.5"] {
                for (y, u) in [("2", "m"), ("3", "N"), ("0.5", "s"), ("2", "km"), ("4", "kg*m/s^2"), ("3", "K"), ("5", "°F"), ("7", "°C")] {
                    for op in ["*", "/"] {
                        for (q, first) in [(format!("{x} {s} {op} {y} {u}"), true), (format!("{y} {u} {op} {x} {s}"), false)] {
                            sink(Case::with("offset-product", q, serde_json::json!({"x": x, "s": s, "y": y, "u": u, "op": op, "scale_first": first})));
                        }
                    }
                }
            }
        }
        for u in tables::UNITS {
            if u.affine != tables::Affine::None {
                continue;
            }
            let name = match u.names.iter().find(|n| tables::typeable(n)) {
                Some(n) => *n,
                None => continue,
            };
            for p in ["", "k", "m"] {
                let w = format!("{p}{name}");
                // prefixed words are used only where the word has exactly one
                // reading (ambiguous concatenations are C05's subject)
                if !p.is_empty() && (crate::units::readings(&w).len() != 1 || tables::find_by_name(&w).is_some()) {
                    continue;
                }
                for n in -3..=3i64 {
                    emit("unit-power", &bin(paren(qty("2", &w)), Op::Pow, num(&n.to_string())), sink);
                }
                emit("unit-square", &bin(qty("2", &w), Op::Mul, qty("3", &w)), sink);
                emit("unit-ratio", &bin(qty("2", &w), Op::Div, qty("3", &w)), sink);
            }
        }
    }
    fn check(&self, env: &mut Env, case: &Case) -> Verdict {
        if case.fam == "offset-product" {
            return offset_product(env, case);
        }
        let e = from_json(&case.data);
        if case.fam.starts_with("unit-") {
            // the statement constrains accepted unit words only: a prefixed
            // word the tool rejects outright (`kton`) is not a C04 matter
            fn first_qty(e: &Expr) -> Option<String> {
                match e {
                    Expr::Qty(l, u) => Some(format!("{l} {u}")),
                    Expr::Bin(a, _, _) | Expr::Paren(a) | Expr::To(a, _) => first_qty(a),
                    _ => None,
                }
            }
            if let Some(q) = first_qty(&e) {
                if let Ok(crate::obs::Res::Err { .. }) = crate::obs::eval_one(env.db(), &q) {
                    return Verdict::DontCare("prefixed unit word rejected by the tool");
                }
            }
        }
        if case.fam == "power-wide" {
            // how large a unit power may be is the tool's choice: a written power of five digits that
            // the tool refuses is not judged; one it accepts must be counted exactly
            let five = case.key.split('^').skip(1).any(|t| t.trim_start_matches('-').chars().take_while(|c| c.is_ascii_digit()).count() >= 5);
            if five {
                if let Ok(crate::obs::Res::Err { .. }) = crate::obs::eval_one(env.db(), &case.key) {
                    return Verdict::DontCare("a unit power of five digits that the tool refuses");
                }
            }
        }
        exprcheck::verdict(env.db(), &e, true)
    }
    fn bounds(&self, tier: Tier) -> serde_json::Value {
        serde_json::json!({"quantities": 62, "triple_core": tier.pick(12, quants().len()), "quadruple_core": tier.pick(0, 10), "powers": tier.pick("-3..3", "-6..6")})
    }
}

/// (interval value, absolute value) in kelvin of `x` degrees on the scale spelled `s`; a
/// proportional unit has one reading.
fn temperature_readings(x: &num::BigRational, s: &str) -> Option<(num::BigRational, num::BigRational)> {
    let r = |n: i64, d: i64| num::BigRational::new(n.into(), d.into());
    match s {
        "°C" | "celsius" => Some((x.clone(), x + r(27315, 100))),
        "°F" | "fahrenheit" => Some((x * r(5, 9), (x - r(32, 1)) * r(5, 9) + r(27315, 100))),
        _ => None,
    }
}

fn offset_product(env: &mut Env, case: &Case) -> Verdict {
    let d = &case.data;
    let (x, s, y, u, op, first) = (d["x"].as_str().unwrap(), d["s"].as_str().unwrap(), d["y"].as_str().unwrap(), d["u"].as_str().unwrap(), d["op"].as_str().unwrap(), d["scale_first"].as_bool().unwrap());
    let xv = crate::refcalc::ref_decimal(x).unwrap();
    let yv = crate::refcalc::ref_decimal(y).unwrap();
    let kelvin = { let mut k = tables::DIM0; k[4] = 1; k };
    // readings of the two operands: (SI value, dimensions)
    let t = temperature_readings(&xv, s).unwrap();
    let a: Vec<(num::BigRational, tables::Dim)> = vec![(t.0, kelvin), (t.1, kelvin)];
    let b: Vec<(num::BigRational, tables::Dim)> = match temperature_readings(&yv, u) {
        Some(t2) => vec![(t2.0, kelvin), (t2.1, kelvin)],
        None => match crate::units::unit_expr(u) {
            Some(m) => vec![(&yv * m.scale, m.dim)],
            None => panic!("machinery: no reference reading of {u}"),
        },
    };
    let got = match crate::obs::eval_one(env.db(), &case.key) {
        Ok(crate::obs::Res::Ok { value, unit, .. }) => match crate::units::si_of(&value, &unit, true) {
            Ok(si) => si,
            Err(e) => return crate::units::table_verdict(format!("{}: {e}", case.key)),
        },
        Ok(crate::obs::Res::Err { .. }) => return Verdict::DontCare("an offset scale as a factor is refused (C09 allows that)"),
        Err(why) => return crate::fw::fail("results:offset-product", format!("{}: {why}", case.key)),
    };
    let sign = if op == "*" { 1 } else { -1 };
    let mut wanted = Vec::new();
    for (av, ad) in &a {
        for (bv, bd) in &b {
            let (l, ld, r, rd) = if first { (av, ad, bv, bd) } else { (bv, bd, av, ad) };
            if sign == -1 && num::Zero::is_zero(r) {
                continue;
            }
            let v = if sign == 1 { l * r } else { l / r };
            let dim = tables::dim_add(ld, rd, sign);
            wanted.push((v, dim));
        }
    }
    if wanted.iter().any(|(v, dim)| *v == got.value && *dim == got.dim) {
        return crate::fw::pass(true, crate::fw::hash_str(&got.short()));
    }
    crate::fw::fail(
        format!("offset-product:{}{}", if first { "scale-first" } else { "scale-second" }, op),
        format!(
            "`{}` = {} [{}] (degrees of the result read as intervals); the product of the operands' SI values is {} with the degree as an interval or {} with it as an absolute temperature",
            case.key,
            got.value,
            tables::dim_text(&got.dim),
            wanted.first().map(|w| w.0.to_string()).unwrap_or_default(),
            wanted.last().map(|w| w.0.to_string()).unwrap_or_default()
        ),
    )
}
