//! C04 — products, quotients and integer powers of quantities are
//! dimensionally exact.

use crate::exprcheck;
use crate::fw::{Case, Env, Prop, Tier, Verdict};
use crate::refcalc::{bin, from_json, num, paren, qty, to_json, Expr, Op};
use crate::tables;

pub struct C04;

/// quantity spellings (literal, unit)
pub const QUANT: [(&str, &str); 63] = [
    ("3", "N"), ("10", "kg"), ("2", "km^2"), ("5", "m/s^2"), ("1", "Wb"), ("2", "V"), ("3", "mA"), ("1", "btu"), ("2", "h"), ("4", "l"),
    ("7", "m"), ("0.5", "s"), ("6", "J"), ("12", "W"), ("9", "Pa"), ("2", "C"), ("3", "F"), ("5", "ohm"), ("2", "T"), ("4", "H"),
    ("8", "ft"), ("3", "lb"), ("2", "gal"), ("1.5", "acre"), ("60", "km/h"), ("2", "kWh"), ("3", "N*m"), ("7", "kg*m/s^2"), ("2", "mol"), ("5", "cd"),
    ("3", "K"), ("1", "au"), ("2", "c"), ("4", "kt"), ("9", "Hz"), ("2", "B"), ("6", "min"), ("3", "cm^3"), ("-2", "m^-1"), ("10", "g"),
    // one unit under several prefixes and powers; prefixed bases; derived-per-base compounds
    ("1", "km"), ("5", "cm"), ("2", "mm^2"), ("1", "dm^3"), ("3", "Gm"), ("500", "mg"), ("3", "ns"), ("7", "m^2"), ("3", "cm^2"), ("2", "N/kg"),
    ("3", "kJ/kg"), ("2", "N/m"), ("5", "J/g"), ("4", "W/cm^2"), ("2", "N/cm"), ("6", "km/s^2"),
    // one prefix on two units of one compound, under different powers
    ("1", "mm/ms"), ("2", "km/ks"), ("3", "kN/km^2"), ("2", "mN*mm"), ("5", "kg*km/ks^2"), ("1", "mm^2/ms"), ("4", "kW/km^2"),
];

fn quants() -> Vec<Expr> {
    QUANT.iter().filter(|(_, u)| *u != "Hz").map(|(l, u)| qty(l, u)).collect()
}

fn emit(fam: &'static str, e: &Expr, sink: &mut dyn FnMut(Case)) {
    sink(Case::with(fam, e.render(), to_json(e)));
}

impl Prop for C04 {
    fn id(&self) -> &'static str {
        "C04"
    }
    fn rule(&self) -> String {
        "62 quantity spellings (base, derived, prefixed, powered, compound, imperial, one unit under several prefixes and powers, derived-per-base compounds, one prefix on two units of a compound under different powers); one unit under two prefixes and two powers on either side of * and / (7 prefixes x powers 1..3, squared); zero-valued quantities, written and computed, under ^n (n in -3..3), * and / ; all ordered pairs x {*, /} with the right operand bare and parenthesised; all triples over a 15-spelling core x {*,/}^2 x both groupings; (q)^n for every spelling and n in -3..3; every documented unit name with prefix none/k/m as (2 u)^n. Compared in SI normal form (value and base dimensions) with the reference evaluation of the tree; the displayed unit is never compared. Non-trivial = at least one operator applied to a quantity with a non-empty unit; distinct = distinct query strings".into()
    }
    fn assumptions(&self) -> Vec<String> {
        vec!["unit scales come from the independent table (tables.rs), documented meanings".into(), "offset scales (°C, °F) are C09's subject".into()]
    }
    fn generate(&self, tier: Tier, sink: &mut dyn FnMut(Case)) {
        let q = quants();
        for a in &q {
            for b in &q {
                for op in [Op::Mul, Op::Div] {
                    emit("pair", &bin(a.clone(), op, b.clone()), sink);
                    emit("pair-paren", &bin(a.clone(), op, paren(b.clone())), sink);
                    emit("pair-paren", &bin(paren(a.clone()), op, b.clone()), sink);
                }
            }
        }
        // thorough: every triple over the whole quantity list, and quadruples over a 10-quantity core
        let core: Vec<Expr> = q.iter().take(tier.pick(12, q.len())).cloned().collect();
        if tier == Tier::Thorough {
            let c4: Vec<Expr> = q.iter().take(10).cloned().collect();
            let ops = [Op::Mul, Op::Div];
            for a in &c4 {
                for b in &c4 {
                    for c in &c4 {
                        for d in &c4 {
                            for o1 in ops {
                                for o2 in ops {
                                    for o3 in ops {
                                        emit("quad", &bin(paren(bin(paren(bin(a.clone(), o1, b.clone())), o2, c.clone())), o3, d.clone()), sink);
                                        emit("quad", &bin(a.clone(), o1, paren(bin(b.clone(), o2, paren(bin(c.clone(), o3, d.clone()))))), sink);
                                        emit("quad", &bin(paren(bin(a.clone(), o1, b.clone())), o2, paren(bin(c.clone(), o3, d.clone()))), sink);
                                    }
                                }
                            }
                        }
                    }
                }
            }
        }
        for a in &core {
            for b in &core {
                for c in &core {
                    for o1 in [Op::Mul, Op::Div] {
                        for o2 in [Op::Mul, Op::Div] {
                            emit("triple", &bin(paren(bin(a.clone(), o1, b.clone())), o2, c.clone()), sink);
                            emit("triple", &bin(a.clone(), o1, paren(bin(b.clone(), o2, c.clone()))), sink);
                        }
                    }
                }
            }
        }
        let pmax = tier.pick(3i64, 6i64);
        for a in &q {
            for n in -pmax..=pmax {
                emit("power", &bin(paren(a.clone()), Op::Pow, num(&n.to_string())), sink);
                // power equals repeated multiplication: also as a product of powers
                emit("power", &bin(paren(bin(paren(a.clone()), Op::Pow, num(&n.to_string()))), Op::Mul, a.clone()), sink);
            }
        }
        // zero-valued quantities (written and computed): the unit is raised / multiplied all the same,
        // a negative power or a division by them is an error
        for w in ["m", "s", "kg", "N", "ft", "km", "btu"] {
            for n in -3..=3i64 {
                emit("zero", &bin(paren(qty("0", w)), Op::Pow, num(&n.to_string())), sink);
                emit("zero", &bin(paren(bin(qty("1", w), Op::Sub, qty("1", w))), Op::Pow, num(&n.to_string())), sink);
            }
            for v in ["s", "m", "J"] {
                emit("zero", &bin(qty("0", w), Op::Mul, qty("3", v)), sink);
                emit("zero", &bin(qty("3", v), Op::Mul, qty("0", w)), sink);
                emit("zero", &bin(qty("0", w), Op::Div, qty("3", v)), sink);
                emit("zero", &bin(qty("3", v), Op::Div, qty("0", w)), sink);
                emit("zero", &bin(qty("3", v), Op::Div, paren(bin(qty("2", w), Op::Sub, qty("2", w)))), sink);
            }
        }
        // one unit under two prefixes and two powers on either side of * and / (in particular
        // pairs with equal prefix x power: km^2 vs Mm, cm^3 vs mm^2, dm^3 vs mm)
        let pfx: Vec<&str> = if tier == Tier::Thorough { std::iter::once("").chain(tables::PREFIXES.iter().map(|p| p.0).filter(|p| tables::typeable(p))).collect() } else { vec!["", "k", "G", "c", "m", "d", "n"] };
        for u in ["m", "s", "g"].iter().take(tier.pick(2, 3)) {
            for p1 in pfx.iter().copied() {
                for n1 in 1..=3i64 {
                    for p2 in pfx.iter().copied() {
                        for n2 in 1..=3i64 {
                            let (w1, w2) = (format!("{p1}{u}"), format!("{p2}{u}"));
                            if [&w1, &w2].iter().any(|w| w.len() > 1 && (crate::units::readings(w).len() != 1 || tables::find_by_name(w).is_some())) {
                                continue;
                            }
                            let a = qty("3", &if n1 == 1 { w1.clone() } else { format!("{w1}^{n1}") });
                            let b = qty("2", &if n2 == 1 { w2.clone() } else { format!("{w2}^{n2}") });
                            emit("same-unit-prefix-power", &bin(a.clone(), Op::Mul, b.clone()), sink);
                            emit("same-unit-prefix-power", &bin(a, Op::Div, b), sink);
                        }
                    }
                }
            }
        }
        for u in tables::UNITS {
            if u.affine != tables::Affine::None {
                continue;
            }
            let name = match u.names.iter().find(|n| tables::typeable(n)) {
                Some(n) => *n,
                None => continue,
            };
            for p in ["", "k", "m"] {
                let w = format!("{p}{name}");
                // prefixed words are used only where the word has exactly one
                // reading (ambiguous concatenations are C05's subject)
                if !p.is_empty() && (crate::units::readings(&w).len() != 1 || tables::find_by_name(&w).is_some()) {
                    continue;
                }
                for n in -3..=3i64 {
                    emit("unit-power", &bin(paren(qty("2", &w)), Op::Pow, num(&n.to_string())), sink);
                }
                emit("unit-square", &bin(qty("2", &w), Op::Mul, qty("3", &w)), sink);
                emit("unit-ratio", &bin(qty("2", &w), Op::Div, qty("3", &w)), sink);
            }
        }
    }
    fn check(&self, env: &mut Env, case: &Case) -> Verdict {
        let e = from_json(&case.data);
        if case.fam.starts_with("unit-") {
            // the statement constrains accepted unit words only: a prefixed
            // word the tool rejects outright (`kton`) is not a C04 matter
            fn first_qty(e: &Expr) -> Option<String> {
                match e {
                    Expr::Qty(l, u) => Some(format!("{l} {u}")),
                    Expr::Bin(a, _, _) | Expr::Paren(a) | Expr::To(a, _) => first_qty(a),
                    _ => None,
                }
            }
            if let Some(q) = first_qty(&e) {
                if let Ok(crate::obs::Res::Err { msg, .. }) = crate::obs::eval_one(env.db(), &q) {
                    if msg.contains("is not a valid unit") {
                        return Verdict::DontCare("prefixed unit word rejected by the tool");
                    }
                }
            }
        }
        exprcheck::verdict(env.db(), &e, true)
    }
    fn bounds(&self, tier: Tier) -> serde_json::Value {
        serde_json::json!({"quantities": 62, "triple_core": tier.pick(12, quants().len()), "quadruple_core": tier.pick(0, 10), "powers": tier.pick("-3..3", "-6..6")})
    }
}
