//! C17 — stored facts and units survive serialisation unchanged.

use crate::fw::{self, Case, Env, Prop, Tier, Verdict};
use crate::obs;
use crate::refdb;
use crate::tables::{self, PREFIXES};
use anything::units as U;
use anything::{Compound, Constant, Rational, Unit};
use num::{BigInt, BigRational};
use std::iter::FromIterator;

pub struct C17;

macro_rules! st {
    ($($path:expr => $id:expr),* $(,)?) => { vec![$((stringify!($path), Unit::Derived($path), $path.id, $id as u32)),*] };
}

/// every `units::*` static: (path, unit, id in this build, documented id of its data.toml entry)
pub fn all_statics() -> Vec<(&'static str, Unit, u32, u32)> {
    st![
        U::time::MINUTE => 0x3cea0000u32, U::time::HOUR => 0x3cea0001u32, U::time::DAY => 0x3cea0003u32, U::time::WEEK => 0x3cea0004u32,
        U::time::MONTH => 0x3cea0005u32, U::time::YEAR => 0x3cea1000u32, U::time::DECADE => 0x3cea2000u32, U::time::CENTURY => 0x3cea3000u32,
        U::time::MILLENIUM => 0x3cea4000u32, U::mass::TONNE => 0x7b15d4d8u32, U::mass::DALTON => 0x95583f60u32, U::volume::LITRE => 0x1c108ba2u32,
        U::volume::CUBIC_CENTIMETER => 0xb36964a0u32, U::volume::GALLON => 0x1c108ba3u32, U::volume::PINT => 0x1c108ba4u32, U::volume::QUART => 0x1c108ba5u32,
        U::volume::CUP => 0x1c108ba6u32, U::volume::GILL => 0x1c108ba7u32, U::volume::FLUID_OUNCE => 0x1c108ba8u32, U::volume::TABLE_SPOON => 0x1c108ba9u32,
        U::volume::TEA_SPOON => 0x1c108baau32, U::area::HECTARE => 0xbf2e000fu32, U::area::PERCH => 0xf153d092u32, U::area::ROOD => 0x20541ce3u32,
        U::area::ACRE => 0xe44777d2u32, U::ACCELERATION => 0xaab4f36cu32, U::VELOCITY => 0x47dd35dcu32, U::GFORCE => 0xb82b2151u32,
        U::NEWTON => 0x150ab031u32, U::PASCAL => 0xd575976du32, U::energy::JOULE => 0xe0796773u32, U::energy::BTU => 0xcf847a94u32,
        U::energy::ELECTRONVOLT => 0x007adc81u32, U::WATT => 0xa977f890u32, U::COULOMB => 0xf57d5095u32, U::VOLT => 0x27475ce0u32,
        U::FARAD => 0xcea46875u32, U::OHM => 0x4c6815d9u32, U::SIEMENS => 0xd87739a9u32, U::WEBER => 0x69ca6c0au32,
        U::TESLA => 0x731514a7u32, U::HENRY => 0xef26a9d5u32, U::LUMEN => 0x359318c2u32, U::LUX => 0xad603e6du32,
        U::BECQUEREL => 0x7c25d25cu32, U::GRAY => 0x6008fcb5u32, U::SIEVERT => 0xcd0fdf3bu32, U::KATAL => 0x9645d02fu32,
        U::velocity::LIGHT_SPEED => 0x8e8393e6u32, U::velocity::KNOT => 0xc8545958u32, U::length::AU => 0xc790db55u32, U::length::FATHOM => 0x50d53fb0u32,
        U::length::CABLE => 0xd9192122u32, U::length::NAUTICAL_MILE => 0xd767fd82u32, U::length::LINK => 0x9618566fu32, U::length::ROD => 0x7ad5cf6du32,
        U::length::THOU => 0xd3c90010u32, U::length::BARLEYCORN => 0xd3c90020u32, U::length::INCH => 0xd3c90000u32, U::length::HAND => 0xd3c90030u32,
        U::length::FOOT => 0xd3c90001u32, U::length::YARD => 0xd3c90002u32, U::length::CHAIN => 0xe8db8915u32, U::length::FURLONG => 0xd3c90040u32,
        U::length::MILE => 0xd3c90003u32, U::length::LEAGUE => 0xd3c90004u32, U::mass::GRAIN => 0xf4321939u32, U::mass::DRACHM => 0xa3592b8cu32,
        U::mass::OUNCE => 0x7c3b47dau32, U::mass::POUND => 0xe0482a36u32, U::mass::STONE => 0xc827fd0du32, U::mass::QUARTER => 0x20f6787bu32,
        U::mass::HUNDREDWEIGHT => 0xf97a5980u32, U::mass::TON => 0xccbb6466u32, U::mass::SLUG => 0x28eaf41bu32, U::temperature::CELSIUS => 0xde39ff06u32,
        U::temperature::FAHRENHEIT => 0x3a824baau32, U::SPECIFIC_IMPULSE => 0x445f9706u32,
    ]
}

fn base_units() -> Vec<(&'static str, Unit)> {
    vec![
        ("KiloGram", Unit::KiloGram),
        ("Candela", Unit::Candela),
        ("Meter", Unit::Meter),
        ("Second", Unit::Second),
        ("Ampere", Unit::Ampere),
        ("Kelvin", Unit::Kelvin),
        ("Mole", Unit::Mole),
        ("Byte", Unit::Byte),
    ]
}

fn all_units() -> Vec<(String, Unit)> {
    let mut v: Vec<(String, Unit)> = base_units().into_iter().map(|(n, u)| (n.to_string(), u)).collect();
    for (n, u, _, _) in all_statics() {
        v.push((n.to_string(), u));
    }
    v
}

fn same_unit(a: &Unit, b: &Unit) -> bool {
    match (a, b) {
        (Unit::Derived(x), Unit::Derived(y)) => x.id == y.id && std::ptr::eq(x.vtable, y.vtable),
        (x, y) => x == y,
    }
}

fn cbor_rt<T: serde::Serialize + serde::de::DeserializeOwned>(v: &T) -> Result<T, String> {
    let bytes = serde_cbor::to_vec(v).map_err(|e| format!("encode: {e}"))?;
    serde_cbor::from_slice(&bytes).map_err(|e| format!("decode: {e}"))
}

fn compound_rt(c: &Compound, units_in: &[Unit]) -> Result<(), String> {
    let back: Compound = cbor_rt(c)?;
    if &back != c {
        return Err(format!("CBOR round trip changed the compound: {c} -> {back}"));
    }
    if back.to_string() != c.to_string() {
        return Err(format!("display changed: {c} -> {back}"));
    }
    // the decoded units must be the very same units (same vtable), not just the same id
    let bytes = serde_cbor::to_vec(c).map_err(|e| e.to_string())?;
    let v: serde_cbor::Value = serde_cbor::from_slice(&bytes).map_err(|e| e.to_string())?;
    let _ = v;
    // round trip through JSON of the structural parts too (ids are plain u32)
    let parts_a = obs::unit_parts(c);
    let parts_b = obs::unit_parts(&back);
    if parts_a != parts_b {
        return Err("unit parts changed".into());
    }
    for u in units_in {
        let one = Compound::from_iter([(*u, (1, 0))]);
        let b: Compound = cbor_rt(&one)?;
        if b != one {
            return Err(format!("unit {one} decodes to {b}"));
        }
    }
    Ok(())
}

impl Prop for C17 {
    fn id(&self) -> &'static str {
        "C17"
    }
    /// C17 is the check that has to notice a changed encoding, so it does not depend on the
    /// harness being able to read units from the current one.
    fn observes_units(&self) -> bool {
        false
    }
    fn rule(&self) -> String {
        "units: all 78 `units::*` statics and the 8 base units x power in -3..3 (no 0) x all 21 prefixes as one-unit compounds; all 2-unit compounds over all units (fixed powers/prefixes) and all 3-unit compounds over a 12-unit core: CBOR encode/decode must return an equal compound whose units are the same statics (id and vtable); ids pairwise distinct and equal to the documented ids pinned in the harness (wire-format stability across builds); decoding {\"Derived\": id} yields the static that encodes to it. Rationals: |p|<=200/q<=60 grid plus a big ladder through CBOR and JSON. Constants: every shipped constant raw Value -> subject `Constant` -> bytes -> `Constant`, fields compared with the raw value decoded independently; every constant with a typeable spelling also through the tool's own loader (looked up by its own words on the in-memory database: stored value, unit, description, source); long decimals: 10^k, 10^k+-1, 2^k, 3^k, k! for 14 lengths from 8 to 200 digits over 9 denominators (integer, short and long terminating tails, repeating), both signs, and long integer parts with a tiny fraction, through CBOR and JSON. Non-trivial = everything but the id-table cases; distinct = distinct case keys".into()
    }
    fn assumptions(&self) -> Vec<String> {
        vec!["serde_cbor / serde_json are faithful carriers".into(), "the documented ids are those of tools/gen/data.toml at the pinned commit".into()]
    }
    fn generate(&self, tier: Tier, sink: &mut dyn FnMut(Case)) {
        sink(Case::new("id-table", "ids distinct and documented"));
        // "a unit expression written by one build reads identically in the next": the encoding the
        // shipped data files and existing indexes use, written out by hand for every base unit
        // (alone and in a compound under a power and a prefix), must decode to that unit
        for (name, _) in base_units() {
            sink(Case::new("legacy-base", name.to_string()));
        }
        let units = all_units();
        for (i, _) in units.iter().enumerate() {
            sink(Case::new("unit", format!("{i}")));
        }
        for i in 0..units.len() {
            for j in 0..units.len() {
                if i != j {
                    sink(Case::new("pair", format!("{i},{j}")));
                }
            }
        }
        let core = tier.pick(10, 40);
        for i in 0..core {
            for j in 0..core {
                for k in 0..core {
                    if i < j && j < k {
                        sink(Case::new("triple", format!("{},{},{}", i * 5 % units.len(), (j * 7 + 1) % units.len(), (k * 11 + 2) % units.len())));
                    }
                }
            }
        }
        let (pm, qm) = tier.pick((60, 24), (2000, 200));
        for q in 1..=qm {
            sink(Case::new("rational-row", format!("{pm}/{q}")));
        }
        for s in ["1e40", "1e-40", "123456789012345678901234567890123456789/7", "-98765432109876543210987654321/340282366920938463463374607431768211456", "0/1"] {
            sink(Case::new("rational-big", s));
        }
        // compounds as the parser builds them from prefixed words (the gram is stored relative to the
        // kilogram, so `yg` carries a stored prefix outside the nominal range), alone and in shapes
        for w in ["g", "m", "s", "A", "K", "mol", "cd", "B", "N", "J", "W", "Pa", "l", "eV", "V", "Wb"] {
            sink(Case::new("parsed", w.to_string()));
        }
        // machine-word boundaries (2^k - 1, 2^k, 2^k + 1 for the usual widths), as numerator and as
        // denominator, both signs: a compact integer fast path in the encoding loses exactly these
        for k in [7u32, 8, 15, 16, 31, 32, 53, 63, 64, 65, 127, 128] {
            let b = num::BigInt::from(1) << k;
            for d in [-1i32, 0, 1] {
                let v = &b + num::BigInt::from(d);
                for (n, dn) in [(format!("{v}"), "1".to_string()), (format!("-{v}"), "1".to_string()), (format!("{v}"), "3".to_string()), ("1".to_string(), format!("{v}")), ("-3".to_string(), format!("{v}"))] {
                    if dn == "3" && (&v % num::BigInt::from(3)) == num::BigInt::from(0) {
                        continue;
                    }
                    if n == "-3" && (&v % num::BigInt::from(3)) == num::BigInt::from(0) {
                        continue;
                    }
                    sink(Case::new("rational-big", format!("{n}/{dn}")));
                }
            }
        }
        // long decimals: numerators 10^k, 10^k +- 1, 2^k, 3^k, k! around the lengths where a textual or
        // fixed-width encoding would cut (8/9, 19/20, 38..42, 60, 100, 140, 200 digits) over
        // denominators that make the value an integer, a terminating decimal with a short or a long
        // tail, or a repeating one
        {
            use num::{BigInt, One};
            let p = |b: u32, e: u32| num::pow(BigInt::from(b), e as usize);
            let mut nums: Vec<BigInt> = Vec::new();
            for k in [8u32, 9, 19, 20, 38, 39, 40, 41, 42, 45, 60, 100, 140, 200] {
                nums.push(p(10, k));
                nums.push(p(10, k) + BigInt::one());
                nums.push(p(10, k) - BigInt::one());
                nums.push(p(2, k));
                nums.push(p(3, k));
                nums.push((1..=k.min(60)).fold(BigInt::one(), |a, i| a * BigInt::from(i)));
            }
            let dens: Vec<BigInt> = vec![BigInt::one(), BigInt::from(2), BigInt::from(1000), p(2, 39), p(5, 20), p(10, 40), p(10, 41), BigInt::from(7), p(2, 64) + BigInt::one()];
            for n in &nums {
                for d in &dens {
                    sink(Case::new("rational-big", format!("{n}/{d}")));
                    sink(Case::new("rational-big", format!("-{n}/{d}")));
                }
            }
            // a long integer part plus a tiny fraction
            for (a, f) in [("12345678901", p(2, 39)), ("100000000", p(2, 39)), ("99999999", p(2, 39)), ("123456789012345678901234567890", p(5, 25)), ("1", p(10, 45))] {
                let n = a.parse::<BigInt>().unwrap() * &f + BigInt::one();
                sink(Case::new("rational-big", format!("{n}/{f}")));
            }
        }
        for (i, _) in refdb::constants().iter().enumerate() {
            sink(Case::new("constant", format!("{i}")));
        }
        // "all shipped data files decode without loss" also through the tool's own loader: every
        // constant with a typeable spelling, looked up by its own words, must come back with the
        // stored value, unit, description and source (C16's oracle, one phrase per constant)
        let mut seen = std::collections::HashSet::new();
        for c in refdb::constants() {
            if !c.tokens.is_empty() && c.tokens.len() <= 6 && crate::props::c16::typeable_phrase(&c.tokens) && seen.insert(c.tokens.join(" ")) {
                sink(Case::new("loaded", c.tokens.join(" ")));
            }
        }
    }
    fn check(&self, env: &mut Env, case: &Case) -> Verdict {
        if case.fam == "loaded" {
            return crate::props::c16::C16.check(env, &Case::new("own-order", case.key.clone()));
        }
        let units = all_units();
        match case.fam {
            "id-table" => {
                let st = all_statics();
                let mut seen = std::collections::HashMap::new();
                for (name, unit, id, documented) in &st {
                    if id != documented {
                        return fw::fail(format!("id-changed:{name}"), format!("{name} has id {id:#x}, documented id is {documented:#x}"));
                    }
                    if let Some(prev) = seen.insert(*id, *name) {
                        return fw::fail(format!("id-duplicate:{name}"), format!("{name} and {prev} share the id {id:#x}"));
                    }
                    // decoding the bare id must give this very unit
                    let v = serde_cbor::Value::Map([(serde_cbor::Value::Text("Derived".into()), serde_cbor::Value::Integer(*id as i128))].into_iter().collect());
                    let bytes = serde_cbor::to_vec(&v).unwrap();
                    match serde_cbor::from_slice::<Unit>(&bytes) {
                        Ok(u) if same_unit(&u, unit) => {}
                        Ok(u) => return fw::fail(format!("id-decodes-other:{name}"), format!("id {id:#x} of {name} decodes to {u:?}")),
                        Err(e) => return fw::fail(format!("id-undecodable:{name}"), format!("id {id:#x} of {name} does not decode: {e}")),
                    }
                    // the documented table must know it under the same dimensions
                    match tables::find_by_id(*id) {
                        Some(def) => {
                            let one = Compound::from_iter([(*unit, (1, 0))]);
                            let parts = obs::unit_parts(&one);
                            match crate::units::si_of(&BigRational::from_integer(BigInt::from(1)), &parts, true) {
                                Ok(si) if si.dim == def.dim => {}
                                other => return fw::fail(format!("id-dims:{name}"), format!("{name}: dimensions differ from the documented unit {:?}: {other:?}", def.names)),
                            }
                        }
                        None => return fw::fail(format!("id-undocumented:{name}"), format!("{name} ({id:#x}) is not a documented id")),
                    }
                }
                if st.len() != tables::UNITS.iter().filter(|u| u.base.is_empty()).count() {
                    return fw::fail("id-count", format!("{} statics vs {} documented derived units", st.len(), tables::UNITS.iter().filter(|u| u.base.is_empty()).count()));
                }
                fw::pass(true, st.len() as u64)
            }
            "legacy-base" => {
                use serde_cbor::Value;
                let (name, unit) = base_units().into_iter().find(|(n, _)| *n == case.key).unwrap();
                let text = |s: &str| Value::Text(s.to_string());
                // the unit alone: its variant name
                let bytes = serde_cbor::to_vec(&text(name)).unwrap();
                match serde_cbor::from_slice::<Unit>(&bytes) {
                    Ok(u) if same_unit(&u, &unit) => {}
                    Ok(u) => return fw::fail(format!("legacy-base-other:{name}"), format!("the stored name `{name}` decodes to {u:?}")),
                    Err(e) => return fw::fail(format!("legacy-base-undecodable:{name}"), format!("the stored name `{name}` no longer decodes: {e}")),
                }
                // in a compound, as the data files and indexes store it: {"names": {<unit>: {"power", "prefix"}}}
                for (power, prefix) in [(1i64, 0i64), (2, 3), (-1, -3)] {
                    let state: Value = Value::Map([(text("power"), Value::Integer(power as i128)), (text("prefix"), Value::Integer(prefix as i128))].into_iter().collect());
                    let names: Value = Value::Map([(text(name), state)].into_iter().collect());
                    let v: Value = Value::Map([(text("names"), names)].into_iter().collect());
                    let bytes = serde_cbor::to_vec(&v).unwrap();
                    let want = Compound::from_iter([(unit, (power as i32, prefix as i32))]);
                    match serde_cbor::from_slice::<Compound>(&bytes) {
                        Ok(c) if c == want => {}
                        Ok(c) => return fw::fail(format!("legacy-compound-other:{name}"), format!("the stored compound {{{name}: power {power}, prefix {prefix}}} decodes to {c}, not {want}")),
                        Err(e) => return fw::fail(format!("legacy-compound-undecodable:{name}"), format!("the stored compound {{{name}: power {power}, prefix {prefix}}} no longer decodes: {e}")),
                    }
                }
                fw::pass(true, fw::hash_str(name))
            }
            "unit" => {
                let i: usize = case.key.parse().unwrap();
                let (name, u) = &units[i];
                let mut h = 0u64;
                for power in [-3, -2, -1, 1, 2, 3] {
                    for p in std::iter::once(0).chain(PREFIXES.iter().map(|p| p.2)) {
                        let c = Compound::from_iter([(*u, (power, p))]);
                        if let Err(e) = compound_rt(&c, &[*u]) {
                            return fw::fail(format!("unit-roundtrip:{name}"), format!("{name}^{power} prefix {p}: {e}"));
                        }
                        // identity of the decoded unit
                        let back: Compound = cbor_rt(&c).unwrap();
                        let bytes = serde_cbor::to_vec(&back).unwrap();
                        h = h.wrapping_mul(31).wrapping_add(fw::fnv(&bytes));
                    }
                }
                let one = Compound::from_iter([(*u, (1, 0))]);
                let bytes = serde_cbor::to_vec(&one).unwrap();
                let v: serde_cbor::Value = serde_cbor::from_slice(&bytes).unwrap();
                // decode the key alone as a Unit and compare identity
                if let serde_cbor::Value::Map(m) = &v {
                    if let Some(serde_cbor::Value::Map(names)) = m.get(&serde_cbor::Value::Text("names".into())) {
                        for k in names.keys() {
                            let kb = serde_cbor::to_vec(k).unwrap();
                            match serde_cbor::from_slice::<Unit>(&kb) {
                                Ok(d) if same_unit(&d, u) => {}
                                other => return fw::fail(format!("unit-identity:{name}"), format!("{name} encodes to {k:?} which decodes to {other:?}")),
                            }
                        }
                    }
                }
                fw::pass(true, h)
            }
            "parsed" => {
                let mut n = 0u64;
                for (sym, long, _) in crate::tables::PREFIXES.iter().chain([("", "", 0)].iter()) {
                    for pfx in [sym, long] {
                        let word = format!("{pfx}{}", case.key);
                        for shape in [word.clone(), format!("{word}^2"), format!("{word}^-1"), format!("{word}/s"), format!("m*{word}^3")] {
                            let c: Compound = match shape.parse() {
                                Ok(c) => c,
                                Err(_) => continue,
                            };
                            n += 1;
                            if let Err(e) = compound_rt(&c, &[]) {
                                return fw::fail("compound-roundtrip:parsed", format!("the unit `{shape}` as parsed ({c}): {e}"));
                            }
                        }
                    }
                }
                env.bulk_evals += n;
                fw::pass(n > 0, n)
            }
            "pair" | "triple" => {
                let idx: Vec<usize> = case.key.split(',').map(|s| s.parse().unwrap()).collect();
                let mut dedup = idx.clone();
                dedup.sort();
                dedup.dedup();
                if dedup.len() != idx.len() {
                    return Verdict::DontCare("repeated unit");
                }
                let specs = [(1, 0), (-2, 3), (3, -6)];
                let us: Vec<Unit> = idx.iter().map(|i| units[*i].1).collect();
                let c = Compound::from_iter(us.iter().enumerate().map(|(n, u)| (*u, specs[n % 3])));
                match compound_rt(&c, &us) {
                    Ok(()) => fw::pass(true, fw::hash_str(&c.to_string())),
                    Err(e) => fw::fail(format!("compound-roundtrip:{}", case.fam), format!("{c}: {e}")),
                }
            }
            "rational-row" | "rational-big" => {
                let mut vals: Vec<BigRational> = Vec::new();
                if case.fam == "rational-row" {
                    let (pm, q) = case.key.split_once('/').unwrap();
                    let (pm, q): (i64, i64) = (pm.parse().unwrap(), q.parse().unwrap());
                    for p in -pm..=pm {
                        vals.push(BigRational::new(BigInt::from(p), BigInt::from(q)));
                    }
                } else if let Some(v) = crate::refcalc::ref_decimal(&case.key) {
                    vals.push(v);
                } else {
                    let (a, b) = case.key.split_once('/').unwrap();
                    vals.push(BigRational::new(a.parse().unwrap(), b.parse().unwrap()));
                }
                let mut h = 0u64;
                for v in &vals {
                    let r = Rational::new(v.numer().clone(), v.denom().clone());
                    let c: Rational = match cbor_rt(&r) {
                        Ok(c) => c,
                        Err(e) => return fw::fail("rational-cbor", format!("{v}: {e}")),
                    };
                    if c != r || &obs::rat_of(&c) != v {
                        return fw::fail("rational-cbor", format!("{v} -> CBOR -> {}", obs::rat_of(&c)));
                    }
                    let js = match serde_json::to_string(&r) {
                        Ok(s) => s,
                        Err(e) => return fw::fail("rational-json", format!("{v}: {e}")),
                    };
                    let j: Rational = match serde_json::from_str(&js) {
                        Ok(j) => j,
                        Err(e) => return fw::fail("rational-json", format!("{v}: {js}: {e}")),
                    };
                    if j != r || &obs::rat_of(&j) != v {
                        return fw::fail("rational-json", format!("{v} -> JSON {js} -> {}", obs::rat_of(&j)));
                    }
                    h = h.wrapping_mul(31).wrapping_add(fw::hash_str(&js));
                }
                fw::pass(true, h)
            }
            "constant" => {
                let i: usize = case.key.parse().unwrap();
                let cs = refdb::constants();
                let rc = &cs[i];
                let raw = serde_cbor::to_vec(&rc.raw).unwrap();
                let c: Constant = match serde_cbor::from_slice(&raw) {
                    Ok(c) => c,
                    Err(e) => return fw::fail("constant-undecodable", format!("constant {:?} does not decode: {e}", rc.tokens)),
                };
                let sig = "constant-field";
                if c.tokens.iter().map(|t| t.to_string()).collect::<Vec<_>>() != rc.tokens {
                    return fw::fail(sig, format!("{:?}: tokens decode as {:?}", rc.tokens, c.tokens));
                }
                if Some(c.description.to_string()) != rc.description {
                    return fw::fail(sig, format!("{:?}: description differs", rc.tokens));
                }
                if c.source != rc.source {
                    return fw::fail(sig, format!("{:?}: source differs", rc.tokens));
                }
                if Some(obs::rat_of(&c.value)) != rc.value {
                    return fw::fail(sig, format!("{:?}: value {} vs raw {:?}", rc.tokens, obs::rat_of(&c.value), rc.value));
                }
                // unit: re-encode and compare with the raw unit value
                let ub = serde_cbor::to_vec(&c.unit).unwrap();
                let uv: serde_cbor::Value = serde_cbor::from_slice(&ub).unwrap();
                if Some(&uv) != rc.unit.as_ref() {
                    return fw::fail(sig, format!("{:?}: unit re-encodes as {uv:?}, raw is {:?}", rc.tokens, rc.unit));
                }
                // second generation
                let again = serde_cbor::to_vec(&c).unwrap();
                let c2: Constant = match serde_cbor::from_slice(&again) {
                    Ok(c) => c,
                    Err(e) => return fw::fail("constant-second-generation", format!("{:?}: re-encoded constant does not decode: {e}", rc.tokens)),
                };
                if c2.value != c.value || c2.unit != c.unit || c2.tokens != c.tokens || c2.description != c.description || c2.source != c.source {
                    return fw::fail("constant-second-generation", format!("{:?}: second generation differs", rc.tokens));
                }
                fw::pass(true, fw::fnv(&again))
            }
            _ => unreachable!(),
        }
    }
    fn bounds(&self, tier: Tier) -> serde_json::Value {
        serde_json::json!({"derived_units": all_statics().len(), "base_units": 8, "powers": "-3..3", "prefixes": 21, "rational_grid": tier.pick("60/24", "2000/200"), "triple_core": tier.pick(10, 40), "constants": refdb::constants().len()})
    }
}
