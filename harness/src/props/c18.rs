//! C18 — describing a query does not change its answer and reports exactly
//! the facts used; queries on one database do not influence each other.
//!
//! Part 1 (explicit-state search over histories): operations = 6 queries x
//! describe {off,on}; every history of length <= 3 (thorough 4) is executed on
//! ONE shared `Db`; a state is the history that reached it, canonicalised by
//! the answers to the probe set (all 12 operations) in that state; the
//! invariant "each operation answers as it does in isolation (fresh Db)" is
//! evaluated on every transition.
//! Part 2 (input enumeration): all expressions with <= 3 operands over 2
//! literals and 4 fact phrases.

use crate::fw::{self, Case, Env, Prop, Tier, Verdict};
use crate::obs::{self, Res};
use crate::refcalc::{bin, from_json, num, paren, ref_eval, to_json, Expr, Op, RefVal};
use crate::units::{self, Si};

pub struct C18;

pub const QUERIES: [&str; 11] = [
    "2 * (3 + 4)",
    "mercury mass",
    "earth mass / mercury mass",
    "round(earth diameter / mercury diameter, 2)",
    "earth mass + 1 s",
    "mercury diameter to mi",
    // a single word that several constants carry (Mass/Diameter/... of Mars), the full word set of
    // one of them, and a query with several results one of which fails after a lookup
    "mars",
    "mars diameter",
    "(2 * earth mass) (mars mass + mars diameter) (mercury mass)",
    // phrases the search backend itself rejects (a dangling boolean operator of its query
    // language): the failed lookup must leave nothing behind for the next one
    "mass NOT",
    "earth OR",
];
const NOPS: usize = QUERIES.len() * 2;

/// Per worker: every operation's observation on two independent fresh databases.
/// "In isolation" is only well defined where the two agree (otherwise the
/// difference is C14's subject, not C18's).
fn isolation(env: &mut Env) -> &'static Vec<(String, String)> {
    static BASE: std::sync::OnceLock<Vec<(String, String)>> = std::sync::OnceLock::new();
    BASE.get_or_init(|| {
        // a fresh pair of databases per operation: nothing else was ever asked of them
        (0..NOPS)
            .map(|op| {
                let (a, b) = (env.fresh_db(), env.fresh_db());
                (observe(&a, QUERIES[op / 2], op % 2 == 1), observe(&b, QUERIES[op / 2], op % 2 == 1))
            })
            .collect()
    })
}

/// Second history alphabet: queries without lookups that would collide in
/// plausible caches (same unit word under different prefixes, same unit under
/// different powers, same function with different arguments, same mantissa
/// with different exponents). (query, raw value, SI value, SI dimensions):
/// hand-written exact expectations, so a history-dependent answer cannot hide
/// behind a polluted baseline.
const UOPS: [(&str, &str, &str, &str); 20] = [
    ("1 km to m", "1000", "1000", "m^1"),
    ("1 mm to m", "1/1000", "1/1000", "m^1"),
    ("1 m to km", "1/1000", "1", "m^1"),
    ("2 km^2 to m^2", "2000000", "2000000", "m^2"),
    ("3 km", "3", "3000", "m^1"),
    ("3 Gm", "3", "3000000000", "m^1"),
    ("1 kg to g", "1000", "1", "kg^1"),
    ("1 h to s", "3600", "3600", "s^1"),
    ("1 ft to in", "12", "381/1250", "m^1"),
    ("round(2.5)", "3", "3", "1"),
    ("round(2.5, 1)", "5/2", "5/2", "1"),
    ("round(-2.5)", "-3", "-3", "1"),
    ("floor(-2.5)", "-3", "-3", "1"),
    ("1e3", "1000", "1000", "1"),
    ("1e-3", "1/1000", "1/1000", "1"),
    ("10%", "1/10", "1/10", "1"),
    ("2 ^ 3", "8", "8", "1"),
    ("2 ^ -3", "1/8", "1/8", "1"),
    ("(2 m) ^ 2", "4", "4", "m^2"),
    ("1 km + 1 km", "2", "2000", "m^1"),
];

fn uop_ok(db: &anything::Db, k: usize) -> Result<(), String> {
    let (q, raw, si, dim) = UOPS[k];
    let parse = |s: &str| -> num::BigRational {
        match s.split_once('/') {
            Some((n, d)) => num::BigRational::new(n.parse().unwrap(), d.parse().unwrap()),
            None => num::BigRational::from_integer(s.parse().unwrap()),
        }
    };
    match obs::eval_one(db, q) {
        Ok(Res::Ok { value, unit, .. }) => {
            if value != parse(raw) {
                return Err(format!("`{q}` = {value}, expected {raw}"));
            }
            match units::si_of(&value, &unit, false) {
                Ok(s) if s.value == parse(si) && crate::tables::dim_text(&s.dim) == dim => Ok(()),
                Ok(s) => Err(format!("`{q}` = {} in SI, expected {si} [{dim}]", s.short())),
                Err(e) => Err(format!("`{q}`: {e}")),
            }
        }
        Ok(Res::Err { msg, .. }) => Err(format!("`{q}` failed: {msg}")),
        Err(e) => Err(format!("`{q}`: {e}")),
    }
}

/// Which operations answer correctly the first time they are evaluated in
/// this process (an operation that is wrong even then is another property's
/// subject, not history dependence).
fn uop_first(env: &mut Env) -> &'static Vec<bool> {
    static FIRST: std::sync::OnceLock<Vec<bool>> = std::sync::OnceLock::new();
    FIRST.get_or_init(|| {
        // evaluated in both orders on two databases: correct "the first time" if either is
        let (a, b) = (env.fresh_db(), env.fresh_db());
        let fwd: Vec<bool> = (0..UOPS.len()).map(|k| uop_ok(&a, k).is_ok()).collect();
        let mut bwd: Vec<bool> = (0..UOPS.len()).rev().map(|k| uop_ok(&b, k).is_ok()).collect();
        bwd.reverse();
        fwd.iter().zip(bwd.iter()).map(|(x, y)| *x || *y).collect()
    })
}

/// Third history alphabet: full word sets of shipped constants that nearly
/// collide (same number of words, every word equal or sharing a prefix of at
/// least five characters: mauritius/mauritania, niger/nigeria, ...), taken
/// from the independent decode of the data files. Oracle: the constant
/// returned carries exactly those words and the value is the stored one,
/// whatever was asked before.
fn near_collisions() -> &'static Vec<(String, Vec<String>, num::BigRational)> {
    static NC: std::sync::OnceLock<Vec<(String, Vec<String>, num::BigRational)>> = std::sync::OnceLock::new();
    NC.get_or_init(|| {
        let all: Vec<crate::refdb::RefConstant> = crate::refdb::constants().into_iter().filter(|c| crate::props::c16::typeable_phrase(&c.tokens) && c.value.is_some()).collect();
        // word sets that occur once
        let mut count = std::collections::HashMap::new();
        for c in &all {
            let mut t = c.tokens.clone();
            t.sort();
            *count.entry(t).or_insert(0) += 1;
        }
        let uniq: Vec<&crate::refdb::RefConstant> = all
            .iter()
            .filter(|c| {
                let mut t = c.tokens.clone();
                t.sort();
                count[&t] == 1
            })
            .collect();
        let near = |a: &str, b: &str| a == b || (a.len() >= 5 && b.len() >= 5 && a.chars().zip(b.chars()).take_while(|(x, y)| x == y).count() >= 5);
        let mut picked: Vec<usize> = Vec::new();
        'outer: for i in 0..uniq.len() {
            for j in (i + 1)..uniq.len() {
                let (a, b) = (&uniq[i].tokens, &uniq[j].tokens);
                if a.len() == b.len() && a != b && a.iter().zip(b.iter()).all(|(x, y)| near(x, y)) {
                    for k in [i, j] {
                        if !picked.contains(&k) {
                            picked.push(k);
                        }
                    }
                    if picked.len() >= 16 {
                        break 'outer;
                    }
                }
            }
        }
        picked.into_iter().map(|k| (uniq[k].tokens.join(" "), uniq[k].tokens.clone(), uniq[k].value.clone().unwrap())).collect()
    })
}

fn near_ok(db: &anything::Db, k: usize) -> Result<(), String> {
    let (q, tokens, value) = &near_collisions()[k];
    let d = obs::eval_described(db, q, true).ok_or_else(|| format!("`{q}`: parse failed"))?;
    if d.results.len() != 1 || d.descriptions.len() != 1 {
        return Err(format!("`{q}`: {} results, {} descriptions", d.results.len(), d.descriptions.len()));
    }
    let mut got: Vec<String> = d.descriptions[0].1.tokens.iter().map(|t| t.to_string()).collect();
    let mut want = tokens.clone();
    got.sort();
    want.sort();
    if got != want {
        return Err(format!("`{q}` is answered with the constant {:?}", d.descriptions[0].1.tokens));
    }
    match &d.results[0] {
        Res::Ok { value: v, .. } if v == value => Ok(()),
        other => Err(format!("`{q}` = {}, stored value {value}", other.short())),
    }
}

/// multi-result family: (text, phrases in source order, prescribed error?)
const MULTI_A: [(&str, &[&str], bool); 8] = [
    ("2 * mercury mass", &["mercury mass"], false),
    ("earth mass / mercury mass", &["earth mass", "mercury mass"], false),
    ("mercury mass", &["mercury mass"], false),
    ("earth mass + 1 s", &["earth mass"], true),
    ("mercury mass / 0", &["mercury mass"], true),
    // casts: the looked-up operand of `to` is described like any other
    ("mercury mass to g", &["mercury mass"], false),
    ("2 * mercury mass to lb", &["mercury mass"], false),
    ("earth mass to s", &["earth mass"], true),
];
const MULTI_B: [(&str, &[&str], bool); 7] = [
    ("2 * mercury diameter", &["mercury diameter"], false),
    ("population finland", &["population finland"], false),
    ("mercury diameter + 1 s", &["mercury diameter"], true),
    ("population finland / 0", &["population finland"], true),
    ("1 / 0", &[], true),
    ("mercury diameter to mi", &["mercury diameter"], false),
    ("mercury diameter / 2 to m", &["mercury diameter"], false),
];

/// Command-line family: phrases whose constants have a recorded source and phrases whose
/// constants have none (the describe block prints the source), as (phrase, stored description).
fn cli_pool() -> &'static Vec<(String, String, bool)> {
    static POOL: std::sync::OnceLock<Vec<(String, String, bool)>> = std::sync::OnceLock::new();
    POOL.get_or_init(|| {
        let all = crate::refdb::constants();
        let mut with: Vec<(String, String, bool)> = Vec::new();
        let mut without: Vec<(String, String, bool)> = Vec::new();
        let mut sorted: Vec<&crate::refdb::RefConstant> = all.iter().collect();
        sorted.sort_by(|a, b| a.tokens.cmp(&b.tokens));
        for c in sorted {
            if c.tokens.len() < 2 || c.tokens.len() > 3 || !crate::props::c16::typeable_phrase(&c.tokens) {
                continue;
            }
            // the full word set must not be contained in another constant's (unique best match)
            if all.iter().filter(|o| c.tokens.iter().all(|t| o.tokens.contains(t))).count() != 1 {
                continue;
            }
            let Some(d) = c.description.clone() else { continue };
            let e = (c.tokens.join(" "), d, c.source.is_some());
            if c.source.is_some() {
                if with.len() < 4 {
                    with.push(e);
                }
            } else if without.len() < 4 {
                without.push(e);
            }
        }
        with.extend(without);
        with
    })
}

/// Runs the real binary; returns stdout lines.
fn run_cli(q: &str, describe: bool) -> Result<Vec<String>, String> {
    let bin = crate::props::c19::any_bin();
    if !bin.exists() {
        panic!("machinery: {} missing (the check script builds it)", bin.display());
    }
    let mut cmd = std::process::Command::new(&bin);
    if describe {
        cmd.arg("--describe");
    }
    cmd.arg("--").arg(q).env_remove("RUST_LOG").env("NO_COLOR", "1");
    let out = cmd.output().unwrap_or_else(|e| panic!("machinery: cannot run {}: {e}", bin.display()));
    use std::os::unix::process::ExitStatusExt;
    if let Some(sg) = out.status.signal() {
        return Err(format!("killed by signal {sg}"));
    }
    let stderr = String::from_utf8_lossy(&out.stderr);
    if out.status.code() == Some(101) || stderr.contains("panicked at") {
        return Err(format!("panicked: {}", stderr.lines().take(2).collect::<Vec<_>>().join(" | ")));
    }
    Ok(String::from_utf8_lossy(&out.stdout).lines().map(|l| l.to_string()).collect())
}

/// A description line without a leading item marker (`3.`, `2)`, `-`, `*`): the statement fixes no
/// layout, and an enumerated list numbers the same entry differently in different queries.
fn unmarked(line: &str) -> String {
    let t = line.trim_start();
    let digits = t.chars().take_while(|c| c.is_ascii_digit()).count();
    let rest = if digits > 0 && t[digits..].starts_with(|c| c == '.' || c == ')' || c == ':') {
        &t[digits + 1..]
    } else if t.starts_with(|c| c == '-' || c == '*' || c == '\u{2022}') && t[1..].starts_with(' ') {
        &t[1..]
    } else {
        t
    };
    rest.trim().to_string()
}

/// The describe block of a query: what `--describe` prints beyond the plain output.
fn cli_block(q: &str) -> Result<Vec<String>, String> {
    let plain = run_cli(q, false)?;
    let desc = run_cli(q, true)?;
    if desc.len() < plain.len() || desc[..plain.len()] != plain[..] {
        return Err(format!("`any --describe -- {q:?}` does not start with the output of `any -- {q:?}`: {desc:?} vs {plain:?}"));
    }
    Ok(desc[plain.len()..].iter().map(|l| unmarked(l)).collect())
}

/// Per worker: the block header (lines common to every single-phrase block) and each pool
/// phrase's own description lines when asked alone.
fn cli_singles() -> &'static Result<(Vec<String>, Vec<Vec<String>>), String> {
    static S: std::sync::OnceLock<Result<(Vec<String>, Vec<Vec<String>>), String>> = std::sync::OnceLock::new();
    S.get_or_init(|| {
        let pool = cli_pool();
        let mut blocks = Vec::new();
        for (p, _, _) in pool {
            blocks.push(cli_block(p)?);
        }
        let mut h = 0usize;
        while blocks.iter().all(|b| b.len() > h) && blocks.iter().all(|b| b[h] == blocks[0][h]) {
            h += 1;
        }
        let header = blocks[0][..h].to_vec();
        Ok((header, blocks.into_iter().map(|b| b[h..].to_vec()).collect()))
    })
}

const PHRASES: [&str; 4] = ["mercury mass", "earth mass", "mercury diameter", "population finland"];
const LITS: [&str; 2] = ["2", "0.5"];

/// observation of one operation: values + described phrases/constants
fn observe(db: &anything::Db, q: &str, describe: bool) -> String {
    match obs::eval_described(db, q, describe) {
        None => "PARSE-FAIL".into(),
        Some(d) => {
            let vals: Vec<String> = d
                .results
                .iter()
                .map(|r| match r {
                    Res::Ok { value, unit, .. } => format!("Ok({value} {unit:?})"),
                    Res::Err { msg, start, end } => format!("Err({msg}@{start}..{end})"),
                })
                .collect();
            let descs: Vec<String> = d.descriptions.iter().map(|(p, c)| format!("{p:?}=>{:?}/{}", c.tokens, obs::rat_of(&c.value))).collect();
            format!("{} || {}", vals.join(";"), descs.join(";"))
        }
    }
}

fn values_only(o: &str) -> &str {
    o.split(" || ").next().unwrap_or("")
}

fn phrase_si(db: &anything::Db, p: &str) -> Option<Si> {
    match obs::eval_one(db, p) {
        Ok(Res::Ok { value, unit, .. }) => units::si_of(&value, &unit, false).ok(),
        _ => None,
    }
}

/// Expected description order for a tree whose every operation has exactly
/// two operands (explicit parentheses), under the given discipline.
fn order(e: &Expr, right_first: bool, out: &mut Vec<String>) {
    match e {
        Expr::Leaf(p, _) => out.push(p.clone()),
        Expr::Paren(a) | Expr::To(a, _) => order(a, right_first, out),
        Expr::Bin(a, _, b) => {
            if right_first {
                order(b, right_first, out);
                order(a, right_first, out);
            } else {
                order(a, right_first, out);
                order(b, right_first, out);
            }
        }
        _ => {}
    }
}

/// The tree with its `i`-th and `j`-th fact leaves (in written order) replaced by the texts `a`, `b`.
fn substitute_leaves(e: &Expr, n: &mut usize, i: usize, a: &str, j: usize, b: &str) -> Expr {
    match e {
        Expr::Leaf(p, si) => {
            let k = *n;
            *n += 1;
            if k == i {
                Expr::Leaf(a.to_string(), si.clone())
            } else if k == j {
                Expr::Leaf(b.to_string(), si.clone())
            } else {
                Expr::Leaf(p.clone(), si.clone())
            }
        }
        Expr::Paren(x) => paren(substitute_leaves(x, n, i, a, j, b)),
        Expr::To(x, u) => crate::refcalc::to(substitute_leaves(x, n, i, a, j, b), u),
        Expr::Bin(x, op, y) => {
            let l = substitute_leaves(x, n, i, a, j, b);
            let r = substitute_leaves(y, n, i, a, j, b);
            bin(l, *op, r)
        }
        other => other.clone(),
    }
}

impl Prop for C18 {
    fn id(&self) -> &'static str {
        "C18"
    }
    fn level(&self) -> &'static str {
        "model_checking"
    }
    fn cross_process_determinism(&self) -> bool {
        false
    }
    fn rule(&self) -> String {
        "histories: all sequences of length <=3 (thorough <=4) over 22 operations (quick, length 3: the backend-rejected phrases only as one of the first two steps) (11 queries: two phrases the search backend rejects (a dangling NOT / OR), literal-only, one fact, two facts, facts inside a function call, an error after a lookup, a cast of a fact, a single word carried by several constants, the full word set of one of those, a three-result query whose middle expression fails after a lookup; each with descriptions off/on; a history is judged only if each of its operations answers identically on two independent fresh databases), each history executed on one shared Db instance that also served all earlier histories of the worker; after every step the operation's observation (values, error text+range, descriptions) must equal its observation on a fresh Db, and describe on/off must give the same values. pairing: every distinct single word of the data set as a phrase (the described constant's value and unit must be the result). near-collision histories: sequences of length <=3 over up to 16 full word sets of shipped constants that share word prefixes of >=5 characters (mauritius/mauritania...), each answer compared with the independently decoded constant. lookup-free histories: all sequences of length <=3 over 20 unit / number / function queries that would collide in plausible caches (one unit word under several prefixes and powers, one function with different arguments, one mantissa with different exponents), each step compared with a hand-written exact expectation. multi-result queries: (A) (B), (B) (A), (A) (B) (A') over 5+5 expressions with disjoint phrase sets (values, failing after a lookup, failing without one): the phrases of every computed result must be reported, in order, whatever fails before or after it. command line: the real `any` binary with and without --describe over up to 8 phrases (4 whose constant records a source, 4 whose constant records none): the --describe output must begin with the plain output, a phrase alone must be described with its own words and the stored description text, and for every ordered pair and triple of phrases as separate results and every ordered pair as a product the describe block must be the header followed by each phrase's own single-phrase description lines in order (within a product: in either order). expressions: all trees with <=3 operands over {2, 0.5, 4 fact phrases} x {+ - * /} with explicit grouping; value with describe = value without = reference evaluation with the described constants substituted; descriptions = the phrases as written, one per phrase occurrence, in the evaluation order inferred from the two-phrase expressions. Non-trivial = the history/expression contains at least one fact lookup; distinct = distinct histories/expressions".into()
    }
    fn assumptions(&self) -> Vec<String> {
        vec![
            "the four phrases are full word sets of shipped constants (unique best match)".into(),
            "the statement does not define 'evaluation order'; the check pins the discipline the tool shows on two-phrase expressions and requires it everywhere".into(),
        ]
    }
    fn generate(&self, tier: Tier, sink: &mut dyn FnMut(Case)) {
        let nops = NOPS;
        let maxlen = tier.pick(3, 4);
        for len in 1..=maxlen {
            let mut idx = vec![0usize; len];
            loop {
                // quick tier, length 3: the two backend-rejected phrases (the last four operations) only
                // as one of the first two steps among otherwise ordinary ones (a failed lookup matters
                // through what follows it); thorough: everything
                let newer = |i: &usize| *i >= NOPS - 4;
                let keep = tier == Tier::Thorough || len < 3 || !idx.iter().any(newer) || (idx.iter().filter(|i| newer(i)).count() == 1 && !newer(&idx[2]));
                if keep {
                    sink(Case::new("history", idx.iter().map(|i| i.to_string()).collect::<Vec<_>>().join(",")));
                }
                let mut i = len;
                let mut done = true;
                while i > 0 {
                    i -= 1;
                    idx[i] += 1;
                    if idx[i] < nops {
                        done = false;
                        break;
                    }
                    idx[i] = 0;
                }
                if done {
                    break;
                }
            }
        }
        // histories over the lookup-free alphabet: all sequences of length <= 3
        let n = UOPS.len();
        for a in 0..n {
            sink(Case::new("uhistory", format!("{a}")));
            for b in 0..n {
                sink(Case::new("uhistory", format!("{a},{b}")));
                for c in 0..n {
                    sink(Case::new("uhistory", format!("{a},{b},{c}")));
                }
            }
        }
        // every distinct single word of the data set as a phrase of its own: the constant that is
        // described must be the one whose value is returned
        let mut words: Vec<String> = crate::refdb::constants().iter().flat_map(|c| c.tokens.clone()).filter(|w| crate::props::c16::typeable_phrase(std::slice::from_ref(w))).collect();
        words.sort();
        words.dedup();
        for w in words {
            sink(Case::new("pairing", w));
        }
        // histories over nearly colliding fact phrases: all sequences of length <= 3 (quick: <= 2 plus
        // every triple that repeats its first element's partner)
        let n = near_collisions().len();
        for a in 0..n {
            sink(Case::new("phistory", format!("{a}")));
            for b in 0..n {
                sink(Case::new("phistory", format!("{a},{b}")));
                for c in 0..n {
                    if tier == Tier::Thorough || c == a || c == b {
                        sink(Case::new("phistory", format!("{a},{b},{c}")));
                    }
                }
            }
        }
        // multi-result queries: (A) (B), (B) (A), (A) (B) (A') with disjoint phrase sets
        for a in 0..MULTI_A.len() {
            for b in 0..MULTI_B.len() {
                sink(Case::new("multi", format!("AB:{a},{b}")));
                sink(Case::new("multi", format!("BA:{a},{b}")));
                for c in 0..MULTI_A.len() {
                    sink(Case::new("multi", format!("ABA:{a},{b},{c}")));
                }
            }
        }
        // the command-line program's describe block over sourced and sourceless constants
        let n = cli_pool().len();
        for a in 0..n {
            sink(Case::new("cli", format!("S:{a}")));
            sink(Case::new("cli", format!("E1:{a}")));
            sink(Case::new("cli", format!("E2:{a}")));
            sink(Case::new("cli", format!("E3:{a},{a}")));
            for b in 0..n {
                sink(Case::new("cli", format!("R:{a},{b}")));
                sink(Case::new("cli", format!("M:{a},{b}")));
                for c in 0..n {
                    sink(Case::new("cli", format!("R:{a},{b},{c}")));
                }
            }
        }
        // expressions; leaves are described by index: 0,1 literals; 2.. phrases
        let nleaf = LITS.len() + PHRASES.len();
        let ops = [Op::Add, Op::Sub, Op::Mul, Op::Div];
        for a in 0..nleaf {
            sink(Case::new("expr", format!("L:{a}")));
            for b in 0..nleaf {
                for o in 0..4 {
                    sink(Case::new("expr", format!("B:{a},{o},{b}")));
                    for c in 0..nleaf {
                        for o2 in 0..4 {
                            sink(Case::new("expr", format!("X:{a},{o},{b},{o2},{c}")));
                            sink(Case::new("expr", format!("Y:{a},{o},{b},{o2},{c}")));
                        }
                    }
                }
            }
        }
        let _ = ops;
    }
    fn check(&self, env: &mut Env, case: &Case) -> Verdict {
        if case.fam == "history" {
            let ops: Vec<usize> = case.key.split(',').map(|s| s.parse().unwrap()).collect();
            // "in isolation" must be well defined for every operation of the history
            let iso = isolation(env);
            if ops.iter().any(|op| iso[*op].0 != iso[*op].1) {
                return Verdict::DontCare("an operation answers differently on two fresh databases (C14's subject)");
            }
            // baseline: the operation's observation on a fresh Db that served nothing else
            // (taken once per worker on two independent fresh databases, see `isolation`)
            let mut obs_hash = 0u64;
            let mut state_before = String::new();
            for (step, op) in ops.iter().enumerate() {
                let (q, describe) = (QUERIES[op / 2], op % 2 == 1);
                let here = observe(env.db(), q, describe);
                let alone = &iso[*op].0;
                if &here != alone {
                    return fw::fail(
                        format!("history-dependence:op{op}"),
                        format!("after {:?} the operation `{q}` (describe={describe}) answers {here}; in isolation it answers {alone}", &ops[..step]),
                    );
                }
                let other = observe(env.db(), q, !describe);
                if values_only(&other) != values_only(&here) {
                    return fw::fail(format!("describe-changes-value:op{op}"), format!("`{q}`: describe={describe} gives {here}, describe={} gives {other}", !describe));
                }
                if !describe && here.split(" || ").nth(1).map(|d| !d.is_empty()).unwrap_or(false) {
                    return fw::fail(format!("descriptions-when-off:op{op}"), format!("`{q}` without describe reported descriptions: {here}"));
                }
                // canonical state = answers of the whole probe set in this state
                let mut state = String::new();
                for p in 0..NOPS {
                    state.push_str(&observe(env.db(), QUERIES[p / 2], p % 2 == 1));
                    state.push('\n');
                }
                if step > 0 && state != state_before {
                    return fw::fail("state-changed", format!("the probe set answers differently after step {step} of {:?}", ops));
                }
                state_before = state;
                obs_hash = obs_hash.wrapping_mul(31).wrapping_add(fw::hash_str(&here));
            }
            env.bulk_evals += (ops.len() as u64) * (NOPS as u64 + 2);
            return fw::pass(ops.iter().any(|o| o / 2 != 0), fw::hash_str(&state_before));
        }
        if case.fam == "cli" {
            let pool = cli_pool();
            let (kind, rest) = case.key.split_once(':').unwrap();
            let idx: Vec<usize> = rest.split(',').map(|x| x.parse().unwrap()).collect();
            let (header, singles) = match cli_singles() {
                Ok(x) => x,
                Err(e) => return fw::fail("cli-single", format!("a single phrase through the binary: {e}")),
            };
            if kind == "S" {
                // a phrase alone: exactly one description, naming the phrase and carrying the stored text
                let (p, d, _) = &pool[idx[0]];
                let own = &singles[idx[0]];
                let joined = own.join("\n");
                if own.is_empty() || !joined.contains(p.as_str()) || !joined.contains(d.as_str()) {
                    return fw::fail("cli-single-content", format!("`any --describe -- {p:?}` describes the phrase as {own:?}; it should name the phrase and carry the stored description {d:?}"));
                }
                return fw::pass(true, fw::hash_str(&joined));
            }
            let q = match kind {
                "R" => idx.iter().map(|i| format!("({})", pool[*i].0)).collect::<Vec<_>>().join(" "),
                // a failing result after or before the phrase: the phrase was looked up all the same
                "E1" => format!("({}) (1 / 0)", pool[idx[0]].0),
                "E2" => format!("(1 / 0) ({})", pool[idx[0]].0),
                "E3" => format!("({}) (1 m + 1 s) ({})", pool[idx[0]].0, pool[idx[0]].0),
                _ => format!("{} * {}", pool[idx[0]].0, pool[idx[1]].0),
            };
            let block = match cli_block(&q) {
                Ok(b) => b,
                Err(e) => return fw::fail("cli-values", e),
            };
            let mut want = header.clone();
            for i in &idx {
                want.extend(singles[*i].iter().cloned());
            }
            // within one product the order of evaluation is the tool's choice (pinned at library level by
            // the expression family); the printing must keep whichever it is
            let mut alt = header.clone();
            for i in idx.iter().rev() {
                alt.extend(singles[*i].iter().cloned());
            }
            if block != want && !(kind == "M" && block == alt) {
                return fw::fail(
                    format!("cli-describe-block:{kind}"),
                    format!("`any --describe -- {q:?}` prints the describe block {block:?}; each phrase alone is described as {:?}, so the block should be {want:?}", idx.iter().map(|i| singles[*i].clone()).collect::<Vec<_>>()),
                );
            }
            return fw::pass(true, fw::hash_str(&block.join("\n")));
        }
        if case.fam == "pairing" {
            let q = &case.key;
            let (on, off) = match (obs::eval_described(env.db(), q, true), obs::eval_described(env.db(), q, false)) {
                (Some(a), Some(b)) => (a, b),
                _ => return Verdict::DontCare("not a phrase"),
            };
            let show = |rs: &Vec<Res>| rs.iter().map(|r| r.short()).collect::<Vec<_>>().join("; ");
            if show(&on.results) != show(&off.results) {
                return fw::fail("describe-changes-value", format!("{q}: with descriptions {} / without {}", show(&on.results), show(&off.results)));
            }
            if on.results.len() != 1 {
                return Verdict::DontCare("not a single phrase");
            }
            return match &on.results[0] {
                Res::Err { .. } => {
                    if on.descriptions.is_empty() {
                        fw::pass(false, 0)
                    } else {
                        fw::fail("pairing-description-of-nothing", format!("{q}: no value but {} descriptions", on.descriptions.len()))
                    }
                }
                Res::Ok { value, unit, .. } => {
                    if on.descriptions.len() != 1 || on.descriptions[0].0 != *q {
                        return fw::fail("pairing-count", format!("{q}: one looked-up phrase, descriptions {:?}", on.descriptions.iter().map(|d| d.0.clone()).collect::<Vec<_>>()));
                    }
                    let c = &on.descriptions[0].1;
                    if &obs::rat_of(&c.value) != value || &obs::unit_parts(&c.unit) != unit {
                        return fw::fail(
                            "pairing",
                            format!("{q}: the value returned is {} but the constant described is {:?} ({}) whose value is {}", on.results[0].short(), c.tokens, c.description, obs::rat_of(&c.value)),
                        );
                    }
                    fw::pass(true, fw::hash_str(&c.description))
                }
            };
        }
        if case.fam == "phistory" {
            let ops: Vec<usize> = case.key.split(',').map(|s| s.parse().unwrap()).collect();
            // every operation must be right on a database that served nothing else (else: C16's subject)
            static FIRST: std::sync::OnceLock<Vec<bool>> = std::sync::OnceLock::new();
            let first = FIRST.get_or_init(|| (0..near_collisions().len()).map(|k| near_ok(&env.fresh_db(), k).is_ok()).collect());
            if ops.iter().any(|k| !first[*k]) {
                return Verdict::DontCare("a phrase is not answered with its own constant even on a fresh database (C16's subject)");
            }
            for (step, k) in ops.iter().enumerate() {
                if let Err(why) = near_ok(env.db(), *k) {
                    return fw::fail(
                        format!("history-dependence:p{k}"),
                        format!("after {:?} on the same database: {why} (on a fresh database the phrase finds its own constant)", ops[..step].iter().map(|i| near_collisions()[*i].0.clone()).collect::<Vec<_>>()),
                    );
                }
            }
            return fw::pass(ops.len() > 1, fw::hash_str(&case.key));
        }
        if case.fam == "uhistory" {
            let ops: Vec<usize> = case.key.split(',').map(|s| s.parse().unwrap()).collect();
            let first = uop_first(env);
            if ops.iter().any(|k| !first[*k]) {
                return Verdict::DontCare("an operation of the history is wrong even on its first evaluation (another property's subject)");
            }
            for (step, k) in ops.iter().enumerate() {
                if let Err(why) = uop_ok(env.db(), *k) {
                    return fw::fail(
                        format!("history-dependence:u{k}"),
                        format!("after {:?} on the same database: {why} (the same query answers correctly when it is evaluated first)", ops[..step].iter().map(|i| UOPS[*i].0).collect::<Vec<_>>()),
                    );
                }
            }
            return fw::pass(ops.len() > 1, fw::hash_str(&case.key));
        }
        if case.fam == "multi" {
            let (kind, rest) = case.key.split_once(':').unwrap();
            let n: Vec<usize> = rest.split(',').map(|x| x.parse().unwrap()).collect();
            let parts: Vec<(&str, &[&str], bool)> = match kind {
                "AB" => vec![MULTI_A[n[0]], MULTI_B[n[1]]],
                "BA" => vec![MULTI_B[n[1]], MULTI_A[n[0]]],
                _ => vec![MULTI_A[n[0]], MULTI_B[n[1]], MULTI_A[n[2]]],
            };
            let q = parts.iter().map(|p| format!("({})", p.0)).collect::<Vec<_>>().join(" ");
            let (on, off) = match (obs::eval_described(env.db(), &q, true), obs::eval_described(env.db(), &q, false)) {
                (Some(a), Some(b)) => (a, b),
                _ => return fw::fail("parse", format!("{q}: parse failed")),
            };
            let show = |rs: &Vec<Res>| rs.iter().map(|r| r.short()).collect::<Vec<_>>().join("; ");
            if show(&on.results) != show(&off.results) {
                return fw::fail("describe-changes-value", format!("{q}: with descriptions {} / without {}", show(&on.results), show(&off.results)));
            }
            if !off.descriptions.is_empty() {
                return fw::fail("descriptions-when-off", format!("{q}: descriptions reported although not asked for"));
            }
            if on.results.len() != parts.len() {
                return fw::fail("multi-results", format!("{q}: {} results for {} expressions", on.results.len(), parts.len()));
            }
            // results are evaluated one after the other, so the descriptions of one result form a block
            // and the blocks follow the results; the order inside a block is the expression family's
            // business (it observes the evaluation order of operands directly)
            let got: Vec<String> = on.descriptions.iter().map(|d| d.0.clone()).collect();
            let mut pos = 0usize;
            for (i, (text, phrases, err)) in parts.iter().enumerate() {
                match (&on.results[i], err) {
                    (Res::Ok { .. }, true) => return fw::fail("error-expected", format!("{q}: expression #{i} `{text}` must be an error")),
                    (Res::Err { msg, .. }, false) => return fw::fail("value", format!("{q}: expression #{i} `{text}` failed: {msg}")),
                    (Res::Ok { .. }, false) => {
                        // every phrase of a result that was computed is reported, in the tool's own discipline
                        let mut want: Vec<String> = phrases.iter().map(|p| p.to_string()).collect();
                        want.sort();
                        let mut block: Vec<String> = got.iter().skip(pos).take(want.len()).cloned().collect();
                        block.sort();
                        if block != want {
                            return fw::fail(
                                "multi-description-missing",
                                format!("{q}: result #{i} `{text}` was computed from {want:?}, but the descriptions are {got:?} (expected them at position {pos})"),
                            );
                        }
                        pos += want.len();
                    }
                    (Res::Err { .. }, true) => {
                        // phrases looked up before the failure may or may not be reported
                        let mut left: Vec<&str> = phrases.to_vec();
                        while pos < got.len() {
                            match left.iter().position(|p| *p == got[pos]) {
                                Some(k) => {
                                    left.remove(k);
                                    pos += 1;
                                }
                                None => break,
                            }
                        }
                    }
                }
            }
            if pos != got.len() {
                return fw::fail("multi-description-extra", format!("{q}: descriptions {got:?} contain entries that belong to no expression (matched {pos})"));
            }
            return fw::pass(true, fw::hash_str(&format!("{got:?}")));
        }
        // expressions
        let db_si: Vec<Option<Si>> = PHRASES.iter().map(|p| phrase_si(env.db(), p)).collect();
        let leaf = |i: usize| -> Option<Expr> {
            if i < LITS.len() {
                Some(num(LITS[i]))
            } else {
                let p = PHRASES[i - LITS.len()];
                db_si[i - LITS.len()].clone().map(|si| Expr::Leaf(p.to_string(), si))
            }
        };
        let ops = [Op::Add, Op::Sub, Op::Mul, Op::Div];
        let k = &case.key;
        let nums: Vec<usize> = k[2..].split(',').map(|s| s.parse().unwrap()).collect();
        let tree = (|| -> Option<Expr> {
            Some(if k.starts_with('L') {
                leaf(nums[0])?
            } else if k.starts_with('B') {
                bin(leaf(nums[0])?, ops[nums[1]], leaf(nums[2])?)
            } else if k.starts_with('X') {
                bin(paren(bin(leaf(nums[0])?, ops[nums[1]], leaf(nums[2])?)), ops[nums[3]], leaf(nums[4])?)
            } else {
                bin(leaf(nums[0])?, ops[nums[1]], paren(bin(leaf(nums[2])?, ops[nums[3]], leaf(nums[4])?)))
            })
        })();
        let tree = match tree {
            Some(t) => t,
            None => return fw::fail("phrase-lookup", "a fact phrase of the fixed set did not evaluate on its own"),
        };
        let _ = (to_json(&tree), from_json);
        let q = tree.render();
        let want = ref_eval(&tree);
        if let RefVal::DontCare(r) = want {
            return Verdict::DontCare(r);
        }
        let on = obs::eval_described(env.db(), &q, true);
        let off = obs::eval_described(env.db(), &q, false);
        let (on, off) = match (on, off) {
            (Some(a), Some(b)) => (a, b),
            _ => return fw::fail("parse", format!("{q}: parse failed")),
        };
        let show = |rs: &Vec<Res>| rs.iter().map(|r| r.short()).collect::<Vec<_>>().join("; ");
        if show(&on.results) != show(&off.results) {
            return fw::fail("describe-changes-value", format!("{q}: with descriptions {} / without {}", show(&on.results), show(&off.results)));
        }
        if !off.descriptions.is_empty() {
            return fw::fail("descriptions-when-off", format!("{q}: descriptions reported although not asked for"));
        }
        if on.results.len() != 1 {
            return fw::fail("results", format!("{q}: {} results", on.results.len()));
        }
        let mut expected_phrases = Vec::new();
        order(&tree, true, &mut expected_phrases);
        let nphrases = expected_phrases.len();
        match (&want, &on.results[0]) {
            (RefVal::Undefined(_), Res::Err { .. }) => {
                // descriptions of an erroring query: phrases looked up before the error; must be a sub-multiset
                for (p, _) in &on.descriptions {
                    if !expected_phrases.contains(p) {
                        return fw::fail("described-unknown-phrase", format!("{q}: described {p:?} which is not a phrase of the query"));
                    }
                }
                return fw::pass(nphrases > 0, 3);
            }
            (RefVal::Undefined(r), r2) => return fw::fail("error-expected", format!("{q}: statement prescribes an error ({r}); got {}", r2.short())),
            (RefVal::Defined { si, .. }, Res::Ok { value, unit, .. }) => match units::si_of(value, unit, false) {
                Ok(g) if &g == si => {}
                Ok(g) => return fw::fail("value", format!("{q}: expected {} got {}", si.short(), g.short())),
                Err(e) => return crate::units::table_verdict(e),
            },
            (RefVal::Defined { si, .. }, Res::Err { msg, .. }) => return fw::fail("value", format!("{q}: expected {} got error {msg}", si.short())),
            _ => unreachable!(),
        }
        // descriptions: exactly the phrases, as written, each with the constant whose value entered
        let got_phrases: Vec<String> = on.descriptions.iter().map(|d| d.0.clone()).collect();
        let mut a = got_phrases.clone();
        let mut b = expected_phrases.clone();
        a.sort();
        b.sort();
        if a != b {
            return fw::fail("description-set", format!("{q}: phrases used {expected_phrases:?}, described {got_phrases:?}"));
        }
        for (p, c) in &on.descriptions {
            let i = PHRASES.iter().position(|x| x == p).unwrap();
            let si = units::si_of(&obs::rat_of(&c.value), &obs::unit_parts(&c.unit), false).ok();
            if si != db_si[i] {
                return fw::fail("description-constant", format!("{q}: phrase {p:?} is described by {:?} whose value is not the one that entered the computation", c.tokens));
            }
        }
        // "in evaluation order": which of two operands is evaluated first is observable without
        // descriptions - make both fail (two different divisions by zero in their places) and see
        // whose error is reported. No discipline (left first, right first, per operator) is assumed.
        if nphrases >= 2 {
            let mut leaves = Vec::new();
            order(&tree, false, &mut leaves);
            for i in 0..leaves.len() {
                for j in (i + 1)..leaves.len() {
                    let unique = |p: &String| leaves.iter().filter(|x| *x == p).count() == 1;
                    if !unique(&leaves[i]) || !unique(&leaves[j]) {
                        continue;
                    }
                    let (fi, fj) = ("(1 / 0)", "(2 / 0)");
                    let text = substitute_leaves(&tree, &mut 0, i, fi, j, fj).render();
                    let (ai, aj) = match (text.find(fi), text.find(fj)) {
                        (Some(a), Some(b)) => (a, b),
                        _ => continue,
                    };
                    let first = match obs::eval_one(env.db(), &text) {
                        Ok(Res::Err { start, end, .. }) if start >= ai && end <= ai + fi.len() => i,
                        Ok(Res::Err { start, end, .. }) if start >= aj && end <= aj + fj.len() => j,
                        _ => continue, // the error does not point at one of the two operands: undecided
                    };
                    let pos = |k: usize| got_phrases.iter().position(|p| *p == leaves[k]);
                    if let (Some(pi), Some(pj)) = (pos(i), pos(j)) {
                        if (first == i) != (pi < pj) {
                            return fw::fail(
                                "description-order",
                                format!("{q}: described in the order {got_phrases:?}, but of {:?} and {:?} the tool evaluates {:?} first (`{text}` reports that operand's error)", leaves[i], leaves[j], leaves[first]),
                            );
                        }
                    }
                }
            }
        }
        fw::pass(nphrases > 0, fw::hash_str(&format!("{:?}", got_phrases)))
    }
    fn bounds(&self, tier: Tier) -> serde_json::Value {
        let l = tier.pick(3u32, 4u32);
        let nops = NOPS as u64;
        let histories: u64 = (1..=l).map(|k| nops.pow(k)).sum();
        serde_json::json!({
            "operations": nops, "history_length_max": l,
            // every history is one explored path; the canonical state is the
            // probe-set answer vector, which the invariant requires to stay the
            // initial one, so the reachable canonical state space is 1 state.
            "states": 1,
            "transitions": (1..=l).map(|k| (k as u64) * nops.pow(k)).sum::<u64>(),
            "multi_result_queries": 2 * MULTI_A.len() * MULTI_B.len() + MULTI_A.len() * MULTI_B.len() * MULTI_A.len(),
            "traces_validated_against_impl": histories,
            "expression_operands_max": 3,
            "cli_phrases": cli_pool().iter().map(|(p, _, s)| format!("{p}{}", if *s { " (sourced)" } else { " (no source)" })).collect::<Vec<_>>(),
        })
    }
}
