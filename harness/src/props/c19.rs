//! C19 — the command line prints exactly what the library computed.

use crate::fw::{self, Case, Env, Prop, Tier, Verdict};
use anything::rational::DisplaySpec;
use anything::Options;
use num::One;
use std::process::Command;

pub struct C19;

pub fn any_bin() -> std::path::PathBuf {
    std::env::var("VH_ANY").map(Into::into).unwrap_or_else(|_| fw::verif_dir().join("harness/target/any/release/any"))
}

const VALUES: [&str; 14] = ["1", "-1", "0", "7", "0.5", "(1 / 3)", "(22 / 7)", "1e13", "1e-13", "12345678901234.5", "0.1234567890123", "(-2 / 3)", "100", "0.999999999999999"];
const UNITS: [&str; 9] = ["", "m", "km", "decade", "m/s", "/s", "m^2", "btu", "kg*m/s^2"];

fn queries(tier: Tier) -> Vec<String> {
    let mut v = Vec::new();
    for val in VALUES {
        for u in UNITS {
            v.push(match u {
                "" => val.to_string(),
                "/s" => format!("{val} / 1 s"),
                u => format!("{val} * 1 {u}"),
            });
            if !val.starts_with('(') && !u.is_empty() && u != "/s" {
                v.push(format!("{val} {u}"));
            }
        }
    }
    for q in [
        "mercury mass", "earth diameter / 2", "population finland", "earth mass / mercury mass", "round(population finland)", "mercury diameter to mi", "3dl to m^3", "1000Gbtu to MWh", "3N / 10kg",
        "1 m + 1 s", "1 / 0", "foo(1)", "1 m + 1 s (5)", "(1 / 0) (2 m)", "(2) (1 / 0) (3 km)", "(1) (2) (3)", "1 decade (1 / 0) 2 decades", "1 m to s (7)", ")", "1 +", "", "   ",
    ] {
        v.push(q.to_string());
    }
    if tier == Tier::Thorough {
        for a in VALUES {
            for b in ["+", "-", "*", "/"] {
                for c in ["3", "0", "(1 / 7)"] {
                    v.push(format!("{a} {b} {c}"));
                    v.push(format!("({a} {b} {c}) * 1 km"));
                }
            }
        }
    }
    v.sort();
    v.dedup();
    v
}

/// Expected stdout items rebuilt from the library's results by the stated rule.
enum Item {
    Line(String),
    Error(String),
}

fn expected(db: &anything::Db, q: &str, exact: bool) -> Option<Vec<Item>> {
    let parsed = anything::parse(q).ok()?;
    let mut d = Vec::new();
    let mut out = Vec::new();
    for r in anything::query(&parsed, db, Options::default(), &mut d) {
        match r {
            Ok(n) => {
                let mut s = String::new();
                if exact {
                    s.push_str(&n.value.numer().to_string());
                    if !n.value.denom().is_one() {
                        s.push('/');
                        s.push_str(&n.value.denom().to_string());
                    }
                } else {
                    let mut spec = DisplaySpec::default();
                    spec.limit = 12;
                    spec.exponent_limit = 12;
                    spec.show_continuation = true;
                    s.push_str(&n.value.display(&spec).to_string());
                }
                // a space and the unit when the unit has a numerator part
                let parts = crate::obs::unit_parts(&n.unit);
                if parts.iter().any(|p| p.1 > 0) {
                    s.push(' ');
                }
                s.push_str(&n.unit.display(!n.value.is_one()).to_string());
                out.push(Item::Line(s));
            }
            Err(e) => out.push(Item::Error(e.to_string())),
        }
    }
    Some(out)
}

fn strip_ansi(s: &str) -> String {
    let mut out = String::new();
    let mut it = s.chars().peekable();
    while let Some(c) = it.next() {
        if c == '\u{1b}' {
            // ESC [ ... letter
            if it.peek() == Some(&'[') {
                it.next();
                while let Some(c) = it.next() {
                    if c.is_ascii_alphabetic() {
                        break;
                    }
                }
            }
        } else {
            out.push(c);
        }
    }
    out
}

impl Prop for C19 {
    fn id(&self) -> &'static str {
        "C19"
    }
    fn cross_process_determinism(&self) -> bool {
        false
    }
    fn rule(&self) -> String {
        "query family: 14 value shapes (1, -1, 0, integers, terminating and repeating fractions, 1e13, 1e-13, 15-digit decimals, a value one ulp below 1) x 9 unit shapes (none, m, km, pluralising `decade`/`btu`, m/s, no-numerator /s, m^2, compound) in two spellings, fact phrases with a unique best match, README examples, erroring queries, multi-result queries with an error between values, degenerate input; x {default, --exact}; each run through the real `any` binary (built from /repo by the check, on-disk index in a private data directory) and compared with the text rebuilt from the library's results by the stated rule (line per Ok result; `error: <message>` diagnostic per Err result, in order). Non-trivial = the query yields at least one result; distinct = distinct (query, mode)".into()
    }
    fn assumptions(&self) -> Vec<String> {
        vec![
            "the decimal rendering itself (Rational::display, limit 12/exponent 12) is C08's subject; here it is taken from the library".into(),
            "the statement fixes no exit code; only exit by signal or the panic code 101 count as violations".into(),
        ]
    }
    fn generate(&self, tier: Tier, sink: &mut dyn FnMut(Case)) {
        for q in queries(tier) {
            sink(Case::with("default", format!("any -- {q:?}"), serde_json::json!({"q": q, "exact": false})));
            sink(Case::with("exact", format!("any --exact -- {q:?}"), serde_json::json!({"q": q, "exact": true})));
        }
    }
    fn case_budget_s(&self) -> u64 {
        60
    }
    fn check(&self, env: &mut Env, case: &Case) -> Verdict {
        let q = case.data["q"].as_str().unwrap();
        let exact = case.data["exact"].as_bool().unwrap();
        let bin = any_bin();
        if !bin.exists() {
            panic!("machinery: {} missing (the check script builds it)", bin.display());
        }
        let mut cmd = Command::new(&bin);
        if exact {
            cmd.arg("--exact");
        }
        cmd.arg("--").arg(q);
        cmd.env_remove("RUST_LOG").env("NO_COLOR", "1");
        let out = match cmd.output() {
            Ok(o) => o,
            Err(e) => panic!("machinery: cannot run {}: {e}", bin.display()),
        };
        let stdout = strip_ansi(&String::from_utf8_lossy(&out.stdout));
        let stderr = String::from_utf8_lossy(&out.stderr).to_string();
        let sig = |w: &str| format!("{w}:{}", case.fam);
        use std::os::unix::process::ExitStatusExt;
        if let Some(s) = out.status.signal() {
            return fw::fail(sig("signal"), format!("{}: killed by signal {s}", case.key));
        }
        if out.status.code() == Some(101) || stderr.contains("panicked at") {
            return fw::fail(sig("panic"), format!("{}: panicked: {}", case.key, stderr.lines().take(3).collect::<Vec<_>>().join(" | ")));
        }
        let want = match expected(env.db(), q, exact) {
            Some(w) => w,
            None => return Verdict::DontCare("library parse() failed"),
        };
        // walk the output
        let lines: Vec<&str> = stdout.lines().collect();
        let mut pos = 0usize;
        for (i, item) in want.iter().enumerate() {
            match item {
                Item::Line(l) => {
                    // skip diagnostic body lines of a preceding error
                    let mut found = None;
                    let mut j = pos;
                    while j < lines.len() {
                        if lines[j] == l {
                            found = Some(j);
                            break;
                        }
                        if i == 0 || !matches!(want[i - 1], Item::Error(_)) {
                            break;
                        }
                        j += 1;
                    }
                    match found {
                        Some(j) => pos = j + 1,
                        None => {
                            return fw::fail(
                                sig("line"),
                                format!("{}: result #{i} should be printed as {l:?}; stdout is {:?}", case.key, stdout),
                            )
                        }
                    }
                }
                Item::Error(m) => {
                    let head = format!("error: {m}");
                    let mut found = None;
                    let mut j = pos;
                    while j < lines.len() {
                        if lines[j].trim_end() == head {
                            found = Some(j);
                            break;
                        }
                        if i == 0 || !matches!(want[i - 1], Item::Error(_)) {
                            break;
                        }
                        j += 1;
                    }
                    match found {
                        Some(j) => pos = j + 1,
                        None => return fw::fail(sig("diagnostic"), format!("{}: result #{i} is the error {m:?} but no `{head}` diagnostic follows in order; stdout is {:?}", case.key, stdout)),
                    }
                }
            }
        }
        // nothing but diagnostic bodies may remain
        if !matches!(want.last(), Some(Item::Error(_))) && pos != lines.len() {
            return fw::fail(sig("extra-output"), format!("{}: unexpected extra output {:?}", case.key, &lines[pos..]));
        }
        if want.iter().all(|w| matches!(w, Item::Line(_))) && !out.status.success() {
            return fw::fail(sig("exit"), format!("{}: all results are values but the exit status is {:?}; stderr {:?}", case.key, out.status, stderr));
        }
        fw::pass(!want.is_empty(), fw::hash_str(&stdout))
    }
    fn bounds(&self, tier: Tier) -> serde_json::Value {
        serde_json::json!({"queries": queries(tier).len(), "modes": ["default", "--exact"]})
    }
}
