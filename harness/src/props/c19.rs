//! C19 — the command line prints exactly what the library computed.

use crate::fw::{self, Case, Env, Prop, Tier, Verdict};
use anything::rational::DisplaySpec;
use anything::Options;
use num::One;
use std::process::Command;

pub struct C19;

pub fn any_bin() -> std::path::PathBuf {
    std::env::var("VH_ANY").map(Into::into).unwrap_or_else(|_| fw::verif_dir().join("harness/target/any/release/any"))
}

// (every count of integer digits and of leading fraction zeros from 1 to 14: where the twelve-digit
// rendering changes its form is the binary's choice of display spec, which must be the stated one)
const VALUES: [&str; 47] = [
    "1", "-1", "0", "7", "0.5", "(1 / 3)", "(22 / 7)", "1e13", "1e-13", "12345678901234.5", "0.1234567890123", "(-2 / 3)", "100", "0.999999999999999", "-1e-13", "(0 - 1 / 3 ^ 40)", "-0.000000000000123", "-12345678901234.5", "-1e13",
    "12", "123", "1234", "12345", "123456", "1234567", "12345678", "123456789", "1234567890", "12345678901", "123456789012", "1234567890123", "12345678901234", "-987654321.5", "0.01", "0.001", "0.0001", "0.00001", "0.000001", "0.0000001", "0.00000001",
    "0.000000001", "0.0000000001", "0.00000000001", "0.000000000001", "0.0000000000001", "1e11", "-1.5e-9",
];
const UNITS: [&str; 9] = ["", "m", "km", "decade", "m/s", "/s", "m^2", "btu", "kg*m/s^2"];

fn queries(tier: Tier) -> Vec<String> {
    let mut v = Vec::new();
    for val in VALUES {
        for u in UNITS {
            v.push(match u {
                "" => val.to_string(),
                "/s" => format!("{val} / 1 s"),
                u => format!("{val} * 1 {u}"),
            });
            if !val.starts_with('(') && !u.is_empty() && u != "/s" {
                v.push(format!("{val} {u}"));
            }
        }
    }
    for q in [
        "mercury mass", "earth diameter / 2", "population finland", "earth mass / mercury mass", "round(population finland)", "mercury diameter to mi", "3dl to m^3", "1000Gbtu to MWh", "3N / 10kg",
        "2.0", "2.0 m", "1.50 km", "0.250", "10e-1 s", "1 m + 1 s", "1 / 0", "foo(1)", "1 m + 1 s (5)", "(1 / 0) (2 m)", "(2) (1 / 0) (3 km)", "(1) (2) (3)", "1 decade (1 / 0) 2 decades", "1 m to s (7)", ")", "1 +", "", "   ",
    ] {
        v.push(q.to_string());
    }
    // unit-print family: every documented unit (first typeable name), value one and not one,
    // alone, squared, as a denominator, in a product and in a quotient
    for u in crate::tables::UNITS {
        let Some(n) = u.names.iter().find(|n| crate::tables::typeable(n)) else { continue };
        for val in ["1", "2", "0.5"] {
            v.push(format!("{val} {n}"));
        }
        v.push(format!("1 {n}^2"));
        v.push(format!("3 {n}^2"));
        v.push(format!("1 / 1 {n}"));
        v.push(format!("1 {n}/s"));
        v.push(format!("2 {n}*K"));
        v.push(format!("1 mol/{n}^3"));
        if u.base.is_empty() == false || ["N", "J", "W", "Pa", "l", "V", "eV", "Hz"].contains(n) {
            for pfx in ["k", "m", "M", "n"] {
                v.push(format!("1 {pfx}{n}"));
                v.push(format!("5 {pfx}{n}^2"));
            }
        }
    }
    // several results in one query: every ordered pair and triple over a plain number, quantities
    // with and without a numerator part, a pluralising unit, an error (what one result prints must
    // not depend on its neighbours)
    // (two kinds of failed lookups among them: a phrase the search backend rejects, and one that
    // matches nothing)
    let elems = ["2", "3 km", "5 / 1 s", "1 m + 1 s", "0.5 decade", "1", "population of OR", "zzzqq nosuchfact"];
    for a in elems {
        for b in elems {
            v.push(format!("({a}) ({b})"));
            for c in elems {
                v.push(format!("({a}) ({b}) ({c})"));
            }
        }
    }
    // failed function calls, nested d deep or repeated n times, in front of results that call
    // functions themselves (what a failed call leaves behind must not reach the next result)
    for d in [1usize, 8, 31, 32, 33, 63, 64, 65, 100, 200] {
        let nest = format!("{}1 / 0{}", "floor(".repeat(d), ")".repeat(d));
        v.push(format!("({nest}) (round(2.5)) (floor(1.5 m))"));
        v.push(format!("({nest}) ({nest}) (ceil(round(2.5)))"));
    }
    for n in [2usize, 10, 63, 64, 65, 130] {
        v.push(format!("{}(round(2.5)) (floor(ceil(1.5 m)))", "(floor(1 / 0)) ".repeat(n)));
        v.push(format!("{}(round(2.5))", "(floor(ceil(round(1 / 0)))) ".repeat(n)));
    }
    // exponents of two and three digits, numerator and denominator (superscripts are printed digit by digit)
    for u in ["m", "s", "K", "btu", "km"] {
        for n in ["10", "12", "21", "123", "100"] {
            v.push(format!("3 {u}^{n}"));
            v.push(format!("1 {u}^-{n}"));
            v.push(format!("2 mol*{u}^{n}"));
            v.push(format!("2 mol/{u}^{n}"));
        }
    }
    // ... and of every length a power can have, up to the largest one
    for u in ["m", "s"] {
        for n in ["1234", "12345", "123456", "1234567", "12345678", "123456789", "1000000000", "1234567890", "2147483647"] {
            v.push(format!("3 {u}^{n}"));
            v.push(format!("1 {u}^-{n}"));
            v.push(format!("2 mol/{u}^{n}"));
        }
    }
    if tier == Tier::Thorough {
        // every ordered pair of the shared quantity list as a product and as a quotient (the unit the
        // tool chooses to display is printed, whatever it is), four results in one query, every
        // documented unit under every typeable prefix symbol, and every shipped fact by its own words
        let quants: Vec<String> = crate::props::c04::QUANT.iter().map(|(l, u)| format!("{l} {u}")).collect();
        for x in &quants {
            for y in &quants {
                v.push(format!("{x} * {y}"));
                v.push(format!("{x} / ({y})"));
            }
        }
        for a in elems {
            for b in elems {
                for c in elems {
                    for d in elems {
                        v.push(format!("({a}) ({b}) ({c}) ({d})"));
                    }
                }
            }
        }
        for u in crate::tables::UNITS {
            let Some(n) = u.names.iter().find(|n| crate::tables::typeable(n)) else { continue };
            for (pfx, _, _) in crate::tables::PREFIXES.iter().filter(|p| crate::tables::typeable(p.0)) {
                v.push(format!("2 {pfx}{n}"));
                v.push(format!("1 {pfx}{n}"));
            }
        }
        for c in crate::refdb::constants() {
            if crate::props::c16::typeable_phrase(&c.tokens) {
                v.push(c.tokens.join(" "));
            }
        }
        for a in VALUES {
            for b in ["+", "-", "*", "/"] {
                for c in ["3", "0", "(1 / 7)"] {
                    v.push(format!("{a} {b} {c}"));
                    v.push(format!("({a} {b} {c}) * 1 km"));
                }
            }
        }
    }
    v.sort();
    v.dedup();
    v
}

/// Expected stdout items rebuilt from the library's results by the stated rule.
enum Item {
    Line(String),
    Error(String),
}

/// What the independent unit re-reader needs for one `Ok` line.
struct LineInfo {
    number: String,
    value: num::BigRational,
    parts: crate::obs::UnitParts,
    value_is_one: bool,
}

/// "then a space and the unit when the unit has a numerator part": required with a numerator
/// part; without one the statement does not say, and the blank goes with the printed form.
fn blank_expected(has_numerator: bool, unit_text: &str) -> bool {
    has_numerator || !(unit_text.is_empty() || unit_text.starts_with('/'))
}

/// `(a) (b) (c)` -> [a, b, c]: a query that is nothing but two or more parenthesised groups
/// separated by single blanks.
fn juxtaposed_parts(q: &str) -> Option<Vec<String>> {
    let cs: Vec<char> = q.chars().collect();
    let mut parts = Vec::new();
    let mut i = 0;
    while i < cs.len() {
        if cs[i] != '(' {
            return None;
        }
        let (mut depth, mut j) = (0i32, i);
        loop {
            if j >= cs.len() {
                return None;
            }
            if cs[j] == '(' {
                depth += 1;
            } else if cs[j] == ')' {
                depth -= 1;
                if depth == 0 {
                    break;
                }
            }
            j += 1;
        }
        parts.push(cs[i + 1..j].iter().collect::<String>());
        i = j + 1;
        if i < cs.len() {
            if cs[i] != ' ' {
                return None;
            }
            i += 1;
            if i >= cs.len() {
                return None;
            }
        }
    }
    if parts.len() >= 2 {
        Some(parts)
    } else {
        None
    }
}

/// "Errors do not abort the remaining results": for a query made of juxtaposed groups, the kinds
/// of results (value or error) that each group gives when it is asked alone, one after the other -
/// not what the library's iterator chooses to yield for the whole query. `None` when the query is
/// not of that form or a group does not parse.
fn expected_kinds_by_group(db: &anything::Db, q: &str, exact: bool) -> Option<Vec<bool>> {
    let parts = juxtaposed_parts(q)?;
    let mut kinds = Vec::new();
    for p in parts {
        let (o, _) = expected(db, &p, exact)?;
        kinds.extend(o.iter().map(|i| matches!(i, Item::Error(_))));
    }
    Some(kinds)
}

fn expected(db: &anything::Db, q: &str, exact: bool) -> Option<(Vec<Item>, Vec<Option<LineInfo>>)> {
    let parsed = anything::parse(q).ok()?;
    let mut d = Vec::new();
    let mut out = Vec::new();
    let mut infos = Vec::new();
    for r in anything::query(&parsed, db, Options::default(), &mut d) {
        match r {
            Ok(n) => {
                let mut s = String::new();
                if exact {
                    // "the reduced numerator ... denominator": reduced here, by the harness's own
                    // fraction (the library's value may or may not be stored in lowest terms)
                    let r = crate::obs::rat_of(&n.value);
                    s.push_str(&r.numer().to_string());
                    if !r.denom().is_one() {
                        s.push('/');
                        s.push_str(&r.denom().to_string());
                    }
                } else {
                    let mut spec = DisplaySpec::default();
                    spec.limit = 12;
                    spec.exponent_limit = 12;
                    spec.show_continuation = true;
                    s.push_str(&n.value.display(&spec).to_string());
                }
                let number = s.clone();
                // a space and the unit when the unit has a numerator part
                let parts = crate::obs::unit_parts(&n.unit);
                // (for a unit without one the statement is silent; the blank is then judged on the
                // printed form: none in front of a leading `/`, one in front of a name as in `s⁻¹`)
                let unit_text = n.unit.display(!n.value.is_one()).to_string();
                if blank_expected(parts.iter().any(|p| p.1 > 0), &unit_text) {
                    s.push(' ');
                }
                s.push_str(&unit_text);
                out.push(Item::Line(s));
                infos.push(Some(LineInfo { number, value: crate::obs::rat_of(&n.value), value_is_one: crate::obs::rat_of(&n.value) == num::BigRational::one(), parts }));
            }
            Err(e) => {
                out.push(Item::Error(e.to_string()));
                infos.push(None);
            }
        }
    }
    Some((out, infos))
}

// ---------------------------------------------------------------------------
// Independent re-reading of a printed unit (the statement: "then a space and
// the unit ..., the unit name pluralised only when the value is not one").
// The printed text `a⋅b²/c⋅d³` is read with the harness's own vocabulary
// table (never with the subject's parser) and must denote the unit the
// library computed (same SI scale and base dimensions).

fn superscript(c: char) -> Option<u32> {
    "⁰¹²³⁴⁵⁶⁷⁸⁹".chars().position(|x| x == c).map(|p| p as u32)
}

/// English singular candidates of a (possibly plural) unit word.
fn singulars(w: &str) -> Vec<String> {
    let mut v = Vec::new();
    if let Some(s) = w.strip_suffix("ies") {
        v.push(format!("{s}y"));
    }
    if let Some(s) = w.strip_suffix("es") {
        v.push(s.to_string());
    }
    if let Some(s) = w.strip_suffix('s') {
        v.push(s.to_string());
    }
    if let Some(s) = w.strip_suffix("ia") {
        v.push(format!("{s}ium"));
    }
    v.retain(|s| !s.is_empty());
    v
}

/// (power-of-ten prefix, unit, is a plural form) for every single-unit reading of a printed word.
fn word_candidates(word: &str) -> Vec<(i32, &'static crate::tables::UnitDef, bool)> {
    let mut out = Vec::new();
    for r in crate::units::readings_spans(word) {
        if r.len() == 1 {
            let (_, name, p, u) = &r[0];
            let plural = singulars(name).iter().any(|s| u.names.contains(&s.as_str()));
            out.push((*p, *u, plural));
        }
    }
    // names the tool prints but does not read: `fl oz` for floz, the conventional symbol `g` for gforce
    // (also under a prefix: `Efl oz`, `kg` for kilo-gforce)
    for (shown, name) in [("fl oz", "floz"), ("fl ozs", "floz"), ("g", "gforce")] {
        let Some(u) = crate::tables::find_by_name(name) else { continue };
        if word == shown {
            out.push((0, u, shown.ends_with("ozs")));
        }
        for (sym, _, e) in crate::tables::PREFIXES {
            if word.strip_prefix(sym) == Some(shown) {
                out.push((*e, u, shown.ends_with("ozs")));
            }
        }
    }
    // a plural the vocabulary table does not list itself (`btus`)
    for s in singulars(word) {
        for r in crate::units::readings_spans(&s) {
            if r.len() == 1 {
                out.push((r[0].2, r[0].3, true));
            }
        }
    }
    out
}

/// Ok(true): judged and fine; Ok(false): the text is outside what the
/// re-reader understands (not judged); Err: the printed unit is wrong.
fn printed_unit_ok(text: &str, info: &LineInfo) -> Result<bool, String> {
    use num::One;
    let want = match crate::units::si_of(&num::BigRational::one(), &info.parts, true) {
        Ok(si) => si,
        Err(_) => return Ok(false),
    };
    // items: (word, signed power)
    let mut items: Vec<(String, i64)> = Vec::new();
    let (numer, denom) = match text.split_once('/') {
        Some((a, b)) => (a, Some(b)),
        None => (text, None),
    };
    for (side, sign) in [(Some(numer), 1i64), (denom, -1i64)] {
        let Some(side) = side else { continue };
        if side.is_empty() {
            continue;
        }
        // the layout is the tool's choice: a side may be parenthesised (`m/(hr⋅s)`) and a power may
        // carry a superscript minus (`s⁻¹`)
        let side = side.strip_prefix('(').and_then(|x| x.strip_suffix(')')).unwrap_or(side);
        for it in side.split('⋅') {
            let mut word = String::new();
            let mut pow: Option<u32> = None;
            let mut neg = false;
            for c in it.chars() {
                if c == '⁻' && pow.is_none() && !neg {
                    neg = true;
                } else if let Some(d) = superscript(c) {
                    pow = Some(pow.unwrap_or(0) * 10 + d);
                } else if pow.is_some() || neg {
                    return Err(format!("printed unit {text:?}: characters after a superscript power in {it:?}"));
                } else {
                    word.push(c);
                }
            }
            if word.is_empty() {
                return Err(format!("printed unit {text:?} has an empty factor"));
            }
            if neg && pow.is_none() {
                return Err(format!("printed unit {text:?}: a superscript minus without digits in {it:?}"));
            }
            items.push((word, sign * if neg { -1 } else { 1 } * pow.unwrap_or(1) as i64));
        }
    }
    let numerators = items.iter().filter(|i| i.1 > 0).count();
    let has_num = info.parts.iter().any(|p| p.1 > 0);
    if (numerators > 0) != has_num {
        return Err(format!("printed unit {text:?} has {numerators} numerator factors but the computed unit {} a numerator part", if has_num { "has" } else { "has not" }));
    }
    // search a combination of readings that denotes the computed unit
    let cands: Vec<Vec<(i32, &'static crate::tables::UnitDef, bool)>> = items.iter().map(|(w, _)| word_candidates(w)).collect();
    if cands.iter().any(|c| c.is_empty()) {
        // e.g. the `e<extra><prefix>` rendering of a prefix that has no symbol
        if items.iter().any(|(w, _)| w.starts_with('e') && w[1..].starts_with(|c: char| c.is_ascii_digit() || c == '-')) {
            return Ok(false);
        }
        return Err(format!("printed unit {text:?}: a factor is no (prefix +) documented unit name"));
    }
    fn rec(
        i: usize,
        items: &[(String, i64)],
        cands: &[Vec<(i32, &'static crate::tables::UnitDef, bool)>],
        scale: num::BigRational,
        dim: crate::tables::Dim,
        want: &crate::units::Si,
        chosen: &mut Vec<bool>,
        found: &mut Vec<Vec<bool>>,
    ) {
        if i == items.len() {
            if scale == want.value && dim == want.dim {
                found.push(chosen.clone());
            }
            return;
        }
        for (p, u, plural) in &cands[i] {
            let f = crate::obs::pow10(*p as i64) * crate::units::scale_of(u);
            let Some(f) = crate::obs::rpow(&f, items[i].1) else { continue };
            chosen.push(*plural);
            rec(i + 1, items, cands, &scale * f, crate::tables::dim_add(&dim, &u.dim, items[i].1 as i32), want, chosen, found);
            chosen.pop();
        }
    }
    let mut found = Vec::new();
    rec(0, &items, &cands, num::BigRational::one(), crate::tables::DIM0, &want, &mut Vec::new(), &mut found);
    if found.is_empty() {
        return Err(format!(
            "printed unit {text:?} does not denote the computed unit {:?} (SI scale {}, dimensions {}) under any reading",
            info.parts,
            want.value,
            crate::tables::dim_text(&want.dim)
        ));
    }
    if info.value_is_one && found.iter().all(|f| f.iter().any(|p| *p)) {
        return Err(format!("the value is one but the unit is printed in a plural form: {text:?}"));
    }
    // "3 metres per decade": what is counted is the numerator; a name after the `/` is a
    // "per <unit>" and never takes the plural
    if found.iter().all(|f| f.iter().zip(items.iter()).any(|(p, it)| *p && it.1 < 0)) {
        return Err(format!("a unit after the `/` is printed in a plural form: {text:?}"));
    }
    Ok(true)
}

pub fn strip_ansi(s: &str) -> String {
    let mut out = String::new();
    let mut it = s.chars().peekable();
    while let Some(c) = it.next() {
        if c == '\u{1b}' {
            // ESC [ ... letter
            if it.peek() == Some(&'[') {
                it.next();
                while let Some(c) = it.next() {
                    if c.is_ascii_alphabetic() {
                        break;
                    }
                }
            }
        } else {
            out.push(c);
        }
    }
    out
}

impl Prop for C19 {
    fn id(&self) -> &'static str {
        "C19"
    }
    fn cross_process_determinism(&self) -> bool {
        false
    }
    fn rule(&self) -> String {
        "query family: 14 value shapes (1, -1, 0, integers, terminating and repeating fractions, 1e13, 1e-13, 15-digit decimals, a value one ulp below 1) x 9 unit shapes, negative tiny/huge values, all ordered pairs and triples (thorough: quadruples) of 6 result kinds in one query, thorough: every ordered pair of 62 quantities as a product and a quotient, every documented unit under every prefix symbol, every shipped fact by its own words, (none, m, km, pluralising `decade`/`btu`, m/s, no-numerator /s, m^2, compound) in two spellings, fact phrases with a unique best match, README examples, erroring queries, multi-result queries with an error between values, degenerate input; x {default, --exact}; each run through the real `any` binary (built from /repo by the check, on-disk index in a private data directory) and compared with the text rebuilt from the library's results by the stated rule (line per Ok result; a diagnostic header line (starting at the margin) that carries the error's message per Err result, in order; a diagnostic may be on stdout, in order with the value lines, or on stderr, in order among the diagnostics). Non-trivial = the query yields at least one result; distinct = distinct (query, mode)".into()
    }
    fn assumptions(&self) -> Vec<String> {
        vec![
            "the decimal rendering itself (Rational::display, limit 12/exponent 12) is C08's subject; here it is taken from the library".into(),
            "the statement fixes no exit code; only exit by signal or the panic code 101 count as violations".into(),
            "\"a space and the unit when the unit has a numerator part\": with a numerator part the blank is required; for a unit without one the statement is silent, and the blank is judged on the printed form (none before a leading `/` as in `0.25/s`, one before a name as in `0.25 s⁻¹`)".into(),
            "\"the unit name pluralised\" is read as the counted (numerator) name: a plural form after the `/` (`3 m/decades`) is reported".into(),
        ]
    }
    fn generate(&self, tier: Tier, sink: &mut dyn FnMut(Case)) {
        for q in queries(tier) {
            sink(Case::with("default", format!("any -- {q:?}"), serde_json::json!({"q": q, "exact": false})));
            sink(Case::with("exact", format!("any --exact -- {q:?}"), serde_json::json!({"q": q, "exact": true})));
        }
    }
    fn case_budget_s(&self) -> u64 {
        60
    }
    fn check(&self, env: &mut Env, case: &Case) -> Verdict {
        let q = case.data["q"].as_str().unwrap();
        let exact = case.data["exact"].as_bool().unwrap();
        let bin = any_bin();
        if !bin.exists() {
            panic!("machinery: {} missing (the check script builds it)", bin.display());
        }
        let mut cmd = Command::new(&bin);
        if exact {
            cmd.arg("--exact");
        }
        cmd.arg("--").arg(q);
        cmd.env_remove("RUST_LOG").env("NO_COLOR", "1");
        let out = match cmd.output() {
            Ok(o) => o,
            Err(e) => panic!("machinery: cannot run {}: {e}", bin.display()),
        };
        let stdout = strip_ansi(&String::from_utf8_lossy(&out.stdout));
        let stderr = String::from_utf8_lossy(&out.stderr).to_string();
        let sig = |w: &str| format!("{w}:{}", case.fam);
        use std::os::unix::process::ExitStatusExt;
        if let Some(s) = out.status.signal() {
            return fw::fail(sig("signal"), format!("{}: killed by signal {s}", case.key));
        }
        if out.status.code() == Some(101) || stderr.contains("panicked at") {
            return fw::fail(sig("panic"), format!("{}: panicked: {}", case.key, stderr.lines().take(3).collect::<Vec<_>>().join(" | ")));
        }
        let (want, infos) = match expected(env.db(), q, exact) {
            Some(w) => w,
            None => return Verdict::DontCare("library parse() failed"),
        };
        // "evaluation errors ... do not abort the remaining results": the results of a query made
        // of juxtaposed groups are, kind by kind, those of the groups asked alone. (Only the kinds
        // are taken from the groups; texts and messages come from the whole query, whose wording
        // may depend on the context.)
        if let Some(kinds) = expected_kinds_by_group(env.db(), q, exact) {
            let got: Vec<bool> = want.iter().map(|i| matches!(i, Item::Error(_))).collect();
            if kinds.iter().any(|e| *e) && got != kinds {
                let show = |v: &[bool]| v.iter().map(|e| if *e { "error" } else { "value" }).collect::<Vec<_>>().join(", ");
                return fw::fail(sig("aborted-results"), format!("{}: asked one by one the groups give [{}]; the whole query gives [{}]", case.key, show(&kinds), show(&got)));
            }
        }
        let mut units_judged = 0u64;
        // walk the output
        let lines: Vec<&str> = stdout.lines().collect();
        let mut pos = 0usize;
        // the statement does not say on which stream a diagnostic appears: one that is not on
        // stdout (in order with the value lines) is looked for on stderr (in order among themselves)
        let stderr_clean = strip_ansi(&stderr);
        let elines: Vec<&str> = stderr_clean.lines().collect();
        let mut epos = 0usize;
        for (i, item) in want.iter().enumerate() {
            match item {
                Item::Line(l) => {
                    // skip diagnostic body lines of a preceding error
                    let mut found = None;
                    let mut j = pos;
                    while j < lines.len() {
                        if lines[j] == l {
                            found = Some(j);
                            break;
                        }
                        if i == 0 || !matches!(want[i - 1], Item::Error(_)) {
                            break;
                        }
                        j += 1;
                    }
                    match found {
                        Some(j) => {
                            pos = j + 1;
                            // independent re-reading of the printed unit
                            if let Some(info) = &infos[i] {
                                let line = lines[j];
                                // the number itself, re-read and compared with the value (C08's oracle at the CLI's spec)
                                if !exact {
                                    if let Err((sg, why)) = crate::props::c08::judge_printed(&info.value, &info.number, true) {
                                        return fw::fail(sig(&format!("number-{sg}")), format!("{}: line {line:?}: {why}", case.key));
                                    }
                                }
                                if let Some(rest) = line.strip_prefix(info.number.as_str()) {
                                    let had_space = rest.starts_with(' ');
                                    let unit_text = rest.strip_prefix(' ').unwrap_or(rest);
                                    let has_num = info.parts.iter().any(|p| p.1 > 0);
                                    if had_space != blank_expected(has_num, unit_text) {
                                        return fw::fail(sig("unit-space"), format!("{}: line {line:?}: a blank separates value and unit when the unit has a numerator part, none stands in front of a leading `/`", case.key));
                                    }
                                    match printed_unit_ok(unit_text, info) {
                                        Ok(true) => units_judged += 1,
                                        Ok(false) => {}
                                        Err(e) => return fw::fail(sig("unit-text"), format!("{}: line {line:?}: {e}", case.key)),
                                    }
                                }
                            }
                        }
                        None => {
                            return fw::fail(
                                sig("line"),
                                format!("{}: result #{i} should be printed as {l:?}; stdout is {:?}", case.key, stdout),
                            )
                        }
                    }
                }
                Item::Error(m) => {
                    // "shown as diagnostics": some line carries the error's message (the statement fixes
                    // neither a header format nor a stream)
                    let head = format!("error: {m}");
                    // (a header line: starts at the margin with a letter, unlike the indented source
                    // excerpt and label lines of a diagnostic body, which may repeat the message)
                    let is_head = |l: &str| !m.is_empty() && l.contains(m.as_str()) && l.chars().next().map(|c| c.is_alphanumeric()).unwrap_or(false);
                    let mut found = None;
                    let mut j = pos;
                    while j < lines.len() {
                        if is_head(lines[j]) {
                            found = Some(j);
                            break;
                        }
                        if i == 0 || !matches!(want[i - 1], Item::Error(_)) {
                            break;
                        }
                        j += 1;
                    }
                    match found {
                        Some(j) => pos = j + 1,
                        None if elines[epos..].iter().any(|l| is_head(l)) => {
                            epos += elines[epos..].iter().position(|l| is_head(l)).unwrap() + 1;
                        }
                        None => return fw::fail(sig("diagnostic"), format!("{}: result #{i} is the error {m:?} but no `{head}` diagnostic follows in order; stdout is {:?}, stderr is {:?}", case.key, stdout, stderr_clean)),
                    }
                }
            }
        }
        // nothing but diagnostic bodies may remain
        if !matches!(want.last(), Some(Item::Error(_))) && pos != lines.len() {
            return fw::fail(sig("extra-output"), format!("{}: unexpected extra output {:?}", case.key, &lines[pos..]));
        }
        // (no rule about the exit status: the statement fixes none; death by signal and the panic code
        // were rejected above)
        env.bulk_nontrivial += 0 * units_judged;
        fw::pass(!want.is_empty(), fw::hash_str(&stdout))
    }
    fn bounds(&self, tier: Tier) -> serde_json::Value {
        serde_json::json!({"queries": queries(tier).len(), "modes": ["default", "--exact"]})
    }
}
