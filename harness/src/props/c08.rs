//! C08 — printed decimals are faithful and never silently truncated.

use crate::fw::{self, Case, Env, Prop, Tier, Verdict};
use crate::obs::pow10;
use anything::rational::DisplaySpec;
use num::{BigInt, BigRational, Signed, Zero};

pub struct C08;

/// Parse printed text `-? D+ ('.' D+)? '…'? ('e' -? D+)?`.
/// Returns (negative, T as exact rational (unsigned), place value of the last digit, has mark).
pub fn read_printed(text: &str) -> Option<(bool, BigRational, BigRational, bool)> {
    let cs: Vec<char> = text.chars().collect();
    let mut i = 0;
    let neg = if i < cs.len() && cs[i] == '-' {
        i += 1;
        true
    } else {
        false
    };
    let mut digits = String::new();
    let st = i;
    while i < cs.len() && cs[i].is_ascii_digit() {
        digits.push(cs[i]);
        i += 1;
    }
    if i == st {
        return None;
    }
    let mut frac = 0i64;
    if i < cs.len() && cs[i] == '.' {
        i += 1;
        let st = i;
        while i < cs.len() && cs[i].is_ascii_digit() {
            digits.push(cs[i]);
            i += 1;
            frac += 1;
        }
        if i == st {
            return None;
        }
    }
    let mut mark = false;
    if i < cs.len() && cs[i] == '…' {
        mark = true;
        i += 1;
    }
    let mut exp = 0i64;
    if i < cs.len() && cs[i] == 'e' {
        i += 1;
        let mut eneg = false;
        if i < cs.len() && cs[i] == '-' {
            eneg = true;
            i += 1;
        }
        let st = i;
        let mut e = String::new();
        while i < cs.len() && cs[i].is_ascii_digit() {
            e.push(cs[i]);
            i += 1;
        }
        if i == st {
            return None;
        }
        exp = e.parse().ok()?;
        if eneg {
            exp = -exp;
        }
    }
    if i != cs.len() {
        return None;
    }
    let n: BigInt = digits.parse().ok()?;
    let ulp = pow10(exp - frac);
    Some((neg, BigRational::from_integer(n) * &ulp, ulp, mark))
}

/// The faithfulness judgement of one printed text for value `v`.
pub fn judge_printed(v: &BigRational, text: &str, show_continuation: bool) -> Result<(), (String, String)> {
    let (neg, t, ulp, mark) = match read_printed(text) {
        Some(x) => x,
        None => return Err(("shape".into(), format!("printed text {text:?} is not a decimal with optional mark and exponent"))),
    };
    let av = v.abs();
    if neg && !v.is_negative() {
        return Err(("sign".into(), format!("{v} printed as {text:?}: spurious minus sign")));
    }
    if !neg && v.is_negative() && !t.is_zero() {
        return Err(("sign".into(), format!("{v} printed as {text:?}: minus sign lost")));
    }
    if t > av {
        return Err(("above".into(), format!("{v} printed as {text:?}: printed magnitude exceeds the value")));
    }
    if &av - &t >= ulp {
        return Err(("not-truncation".into(), format!("{v} printed as {text:?}: not the value cut off at the last printed digit (off by >= one unit of that digit)")));
    }
    if show_continuation {
        if mark && av == t {
            return Err(("spurious-mark".into(), format!("{v} printed as {text:?}: continuation mark although nothing was cut off")));
        }
        if !mark && av != t {
            return Err(("missing-mark".into(), format!("{v} printed as {text:?}: non-zero digits cut off without the continuation mark")));
        }
    } else if mark {
        return Err(("mark-when-off".into(), format!("{v} printed as {text:?}: mark printed although show_continuation is off")));
    }
    Ok(())
}

fn gcd(a: i64, b: i64) -> i64 {
    if b == 0 {
        a.abs()
    } else {
        gcd(b, a % b)
    }
}

/// value keys "p/q" or "p/q@k" meaning (p/q)*10^k
fn values(tier: Tier, f: &mut dyn FnMut(String)) {
    let (pmax, qmax) = tier.pick((60, 24), (200, 60));
    for q in 1..=qmax {
        for p in -pmax..=pmax {
            if gcd(p, q) == 1 {
                f(format!("{p}/{q}"));
            }
        }
    }
    let ks: Vec<i64> = match tier {
        Tier::Quick => vec![-40, -13, -12, -11, -8, -7, -6, -5, -3, -1, 1, 3, 5, 6, 7, 8, 11, 12, 13, 20, 40],
        Tier::Thorough => (-40..=40).collect(),
    };
    for k in ks {
        for q in 1..=12i64 {
            for p in 1..=12i64 {
                if gcd(p, q) == 1 {
                    f(format!("{p}/{q}@{k}"));
                    f(format!("-{p}/{q}@{k}"));
                }
            }
        }
    }
    // integers around powers of ten, with and without a fractional tail
    for k in 0..=20 {
        for d in [-1i64, 0, 1] {
            for tail in ["", "+1/2", "+1/3", "+1/1000000"] {
                f(format!("pow{k}{d:+}{tail}"));
                f(format!("-pow{k}{d:+}{tail}"));
            }
        }
    }
    // numerators and denominators at the edges of the machine words (2^k - 1, 2^k, 2^k + 1), a tenth
    // of them (where `x * 10` first leaves the word), and powers of ten of 19 and 20 digits
    {
        let one = BigInt::from(1);
        let mut dens: Vec<BigInt> = Vec::new();
        for k in [8usize, 16, 31, 32, 53, 63, 64, 65, 127, 128] {
            let two = num::pow(BigInt::from(2), k);
            for d in [&two - &one, two.clone(), &two + &one] {
                dens.push(&d / BigInt::from(10));
                dens.push(&d / BigInt::from(10) + &one);
                dens.push(d);
            }
        }
        for k in [18usize, 19, 20] {
            let t = num::pow(BigInt::from(10), k);
            dens.push(t.clone());
            dens.push(&t * BigInt::from(3));
        }
        for d in &dens {
            for n in [one.clone(), BigInt::from(3), d - &one, d + &one, d * BigInt::from(7) + &one] {
                f(format!("{n}/{d}"));
                f(format!("-{n}/{d}"));
                f(format!("{d}/{n}"));
            }
        }
    }
    // long exact decimals straddling digit budgets
    for s in ["1234567/10000000", "12345678901234/10", "1234567/2", "99999999999999/100", "1/1024", "12345678901234567890123/1"] {
        f(s.to_string());
        f(format!("-{s}"));
    }
}

fn parse_value(key: &str) -> BigRational {
    let (neg, key) = match key.strip_prefix('-') {
        Some(k) => (true, k),
        None => (false, key),
    };
    let v = if let Some(rest) = key.strip_prefix("pow") {
        // pow<k><+d>[+a/b]
        let i = rest.find(|c| c == '+' || c == '-').unwrap();
        let k: i64 = rest[..i].parse().unwrap();
        let rest = &rest[i..];
        let (d, tail) = match rest[1..].find('+') {
            Some(j) => (&rest[..j + 1], Some(&rest[j + 2..])),
            None => (rest, None),
        };
        let d: i64 = d.parse().unwrap();
        let mut v = pow10(k) + BigRational::from_integer(BigInt::from(d));
        if let Some(t) = tail {
            let (a, b) = t.split_once('/').unwrap();
            v += BigRational::new(a.parse().unwrap(), b.parse().unwrap());
        }
        v
    } else {
        let (frac, k) = match key.split_once('@') {
            Some((f, k)) => (f, k.parse::<i64>().unwrap()),
            None => (key, 0),
        };
        let (a, b) = frac.split_once('/').unwrap();
        BigRational::new(a.parse().unwrap(), b.parse().unwrap()) * pow10(k)
    };
    if neg {
        -v
    } else {
        v
    }
}

fn specs(tier: Tier) -> Vec<(usize, usize)> {
    let mut v = Vec::new();
    // digit budgets around the sizes a buffer is likely to have
    for l in [40usize, 63, 64, 65, 66, 127, 128, 129, 130, 131, 200, 255, 256, 257] {
        v.push((l, 12));
    }
    match tier {
        Tier::Quick => {
            for l in [1usize, 2, 3, 6, 7, 12, 20] {
                for e in [1usize, 2, 6, 8, 12, 15] {
                    v.push((l, e));
                }
            }
        }
        Tier::Thorough => {
            for l in 1..=20 {
                for e in 1..=15 {
                    v.push((l, e));
                }
            }
        }
    }
    v
}

impl Prop for C08 {
    fn id(&self) -> &'static str {
        "C08"
    }
    fn observes_units(&self) -> bool {
        false
    }
    fn rule(&self) -> String {
        "values: all reduced p/q with |p|<=60,q<=24 (thorough |p|<=200,q<=60); (p/q)*10^k for p,q<=12, both signs, k over a 21-point ladder in -40..40 (thorough every k in -40..40); 10^k+{-1,0,1} with and without fractional tails for k<=20; numerators and denominators at the machine-word edges (2^k-1, 2^k, 2^k+1 for ten k from 8 to 128, a tenth of each, 10^18..10^20 and three times those, each under five numerators, both signs and inverted); long exact decimals; each case = one value, bulk-formatted under every display spec limit x exponent_limit (quick 7x6 specs, thorough 20x15) with the continuation mark on, and with it off for the truncation clause. The printed text is re-read (own reader) and must be the value cut toward zero at its last digit, right sign, mark iff something non-zero was cut. evaluations counts (value,spec,mark-mode) triples; non-trivial = the value is not an integer of <= limit digits (something could be cut); distinct by construction (distinct reduced values x distinct specs)".into()
    }
    fn assumptions(&self) -> Vec<String> {
        vec!["magnitudes between the ladder's points behave like the points".into(), "DisplaySpec is constructed via Default + public fields, as src/bin/any.rs does".into()]
    }
    fn generate(&self, tier: Tier, sink: &mut dyn FnMut(Case)) {
        let mut seen = std::collections::HashSet::new();
        values(tier, &mut |k| {
            // canonicalise duplicates (same rational through two keys)
            let v = parse_value(&k);
            if seen.insert(v.to_string()) {
                sink(Case::new("value", k));
            }
        });
    }
    fn check(&self, env: &mut Env, case: &Case) -> Verdict {
        let v = parse_value(&case.key);
        let r = anything::Rational::new(v.numer().clone(), v.denom().clone());
        let mut obs = 0u64;
        let mut nontrivial = 0u64;
        let mut evals = 0u64;
        let mut first: Option<(String, String)> = None;
        for (limit, exp_limit) in specs(env.tier) {
            for cont in [true, false] {
                let mut spec = DisplaySpec::default();
                spec.limit = limit;
                spec.exponent_limit = exp_limit;
                spec.show_continuation = cont;
                let text = r.display(&spec).to_string();
                evals += 1;
                obs = obs.wrapping_mul(31).wrapping_add(fw::hash_str(&text));
                if !v.is_integer() || v.numer().to_string().len() > limit {
                    nontrivial += 1;
                }
                if let Err((class, why)) = judge_printed(&v, &text, cont) {
                    if first.is_none() {
                        // signature: failure class + which printer path (by shape of the value)
                        let path = if v.abs() >= pow10(exp_limit as i64) {
                            "big"
                        } else if v.abs() >= BigRational::from_integer(BigInt::from(1)) || v.is_zero() {
                            "whole"
                        } else {
                            "small"
                        };
                        first = Some((format!("{class}/{path}"), format!("{why} (limit {limit}, exponent_limit {exp_limit}, show_continuation {cont})")));
                    }
                }
            }
        }
        env.bulk_evals += evals - 1;
        env.bulk_nontrivial += nontrivial.saturating_sub(1);
        match first {
            None => fw::pass(nontrivial > 0, obs),
            Some((sig, why)) => fw::fail(sig, why),
        }
    }
    fn bounds(&self, tier: Tier) -> serde_json::Value {
        serde_json::json!({
            "limits": tier.pick("1,2,3,6,7,12,20", "1..20"),
            "exponent_limits": tier.pick("1,2,6,8,12,15", "1..15"),
            "magnitudes": "1e-40..1e40",
        })
    }
}
