//! RefUnits: reference semantics of unit words / unit expressions and the
//! SI normal form of observed results, all over `tables.rs`.

use crate::obs::{pow10, rpow, Res, UKey, UnitParts};
use crate::tables::{self, Affine, Dim, UnitDef, DIM0, PREFIXES, UNITS};
use num::{BigRational, One};

#[derive(Clone, Debug, PartialEq, Eq)]
pub struct Si {
    pub value: BigRational,
    pub dim: Dim,
}

impl Si {
    pub fn short(&self) -> String {
        let v = self.value.to_string();
        let v = if v.len() > 80 { format!("{}…({} chars)", &v[..40], v.len()) } else { v };
        format!("{} [{}]", v, tables::dim_text(&self.dim))
    }
}

pub fn scale_of(u: &UnitDef) -> BigRational {
    tables::parse_scale(u.scale)
}

pub fn def_of_key(k: &UKey) -> Option<&'static UnitDef> {
    match k {
        UKey::Base(n) => tables::find_by_base(n),
        UKey::Derived(id) => tables::find_by_id(*id),
    }
}

/// Does the observed unit contain an offset scale (°C/°F)?
pub fn has_affine(unit: &UnitParts) -> bool {
    unit.iter().any(|(k, _, _)| def_of_key(k).map(|d| d.affine != Affine::None).unwrap_or(false))
}

/// SI normal form of an observed value; affine units are treated as
/// *intervals* (scale only) when `interval` is set, and refused otherwise.
pub fn si_of(value: &BigRational, unit: &UnitParts, interval: bool) -> Result<Si, String> {
    let mut v = value.clone();
    let mut dim = DIM0;
    for (k, power, prefix) in unit {
        let def = def_of_key(k).ok_or_else(|| format!("unit {k:?} is not in the documented table"))?;
        if def.affine != Affine::None && !interval {
            return Err("offset scale".into());
        }
        // A base unit observed as KiloGram carries its bias in `prefix`
        // already; its own scale is 1.
        let scale = if def.base.is_empty() { scale_of(def) } else { BigRational::one() };
        let f = pow10(*prefix as i64) * scale;
        v *= rpow(&f, *power as i64).ok_or("zero scale")?;
        dim = tables::dim_add(&dim, &def.dim, *power);
    }
    Ok(Si { value: v, dim })
}

/// The verdict for a result whose unit the harness cannot turn into SI: a unit that is not in the
/// harness's table at all (a build that knows more units than the documented ones) cannot be
/// judged; anything else is reported.
pub fn table_verdict(e: impl Into<String>) -> crate::fw::Verdict {
    let e = e.into();
    if e.contains("is not in the documented table") {
        crate::fw::Verdict::DontCare("the result carries a unit that is not in the harness's table (C17 pins the documented ids)")
    } else {
        crate::fw::fail("unit-table", e)
    }
}

pub fn si_of_res(r: &Res) -> Result<Si, String> {
    match r {
        Res::Ok { value, unit, .. } => si_of(value, unit, false),
        Res::Err { msg, .. } => Err(format!("error result: {msg}")),
    }
}

// ---------------------------------------------------------------------------
// Words

/// One reading of a word: sequence of (prefix power of ten, unit).
pub type Reading = Vec<(i32, &'static UnitDef)>;

fn strip<'a>(s: &'a str, p: &str) -> Option<&'a str> {
    s.strip_prefix(p)
}

/// One reading with the text each element matched: (text, prefix, unit).
pub type SpanReading = Vec<(String, String, i32, &'static UnitDef)>;

/// All segmentations of `word` into (prefix? name)+ over the documented
/// vocabulary, with the matched text of every element.
pub fn readings_spans(word: &str) -> Vec<SpanReading> {
    readings_spans_with(word, &[])
}

/// The SI prefixes adopted in 2022 (ronna, quetta, ronto, quecto). The tool does not know them
/// and the generators do not use them; they only widen what counts as a *valid reading* of a word
/// the tool accepts, so that a build which learns them is not reported.
pub const PREFIXES_2022: [(&str, &str, i32); 4] = [("R", "ronna", 27), ("Q", "quetta", 30), ("r", "ronto", -27), ("q", "quecto", -30)];

/// Standard spellings of documented units that the tool does not document (alias, documented
/// name). Like the 2022 prefixes they only widen what counts as a valid reading.
pub const EXTRA_NAMES: [(&str, &str); 12] = [
    ("d", "day"),
    ("L", "l"),
    ("litre", "l"),
    ("liter", "l"),
    ("kn", "kt"),
    ("foot", "ft"),
    ("feet", "ft"),
    ("gramme", "gram"),
    ("tonne", "tonne"),
    ("metre", "m"),
    ("hour", "h"),
    ("sec", "s"),
];

/// Readings of `word` that are valid when the 2022 prefixes, English plurals of spelled-out
/// names and a few standard spellings the tool does not document are admitted as well.
pub fn readings_2022(word: &str) -> Vec<Reading> {
    readings_spans_with(word, &PREFIXES_2022).into_iter().map(|r| r.into_iter().map(|(_, _, p, u)| (p, u)).collect()).collect()
}

fn readings_spans_with(word: &str, extra: &'static [(&'static str, &'static str, i32)]) -> Vec<SpanReading> {
    fn rec(rest: &str, acc: &mut SpanReading, out: &mut Vec<SpanReading>, extra: &'static [(&'static str, &'static str, i32)]) {
        if rest.is_empty() {
            if !acc.is_empty() {
                out.push(acc.clone());
            }
            return;
        }
        if acc.len() > 12 || out.len() > 20000 {
            return;
        }
        let mut prefixes: Vec<(&str, i32)> = vec![("", 0)];
        for (sym, long, p) in PREFIXES.iter().chain(extra.iter()) {
            if rest.starts_with(sym) {
                prefixes.push((sym, *p));
            }
            if rest.starts_with(long) {
                prefixes.push((long, *p));
            }
        }
        for (ptext, p) in prefixes {
            let after = &rest[ptext.len()..];
            // with the extended vocabulary: standard spellings the tool does not document today
            // (`d` is the SI brochure's symbol for the day, `L` for the litre ...)
            if !extra.is_empty() {
                for (alias, canonical) in EXTRA_NAMES {
                    if let (Some(tail), Some(u)) = (strip(after, alias), tables::find_by_name(canonical)) {
                        acc.push((ptext.to_string(), alias.to_string(), p, u));
                        rec(tail, acc, out, extra);
                        acc.pop();
                    }
                }
            }
            for u in UNITS {
                for name in u.names {
                    if let Some(tail) = strip(after, name) {
                        acc.push((ptext.to_string(), name.to_string(), p, u));
                        rec(tail, acc, out, extra);
                        // with the extended vocabulary: the English plural of a spelled-out name
                        // (`kilograms`, `metres`, `joules`) is that unit, not the unit times a second
                        // (also of a lower-case abbreviation of three letters: `btus`)
                        if !extra.is_empty() && name.len() >= 3 && name.chars().all(|c| c.is_ascii_lowercase()) && !name.ends_with('s') {
                            if let Some(t2) = tail.strip_prefix('s') {
                                rec(t2, acc, out, extra);
                            }
                        }
                        acc.pop();
                    }
                }
            }
        }
    }
    let mut out = Vec::new();
    rec(word, &mut Vec::new(), &mut out, extra);
    out
}

pub fn readings(word: &str) -> Vec<Reading> {
    readings_spans(word).into_iter().map(|r| r.into_iter().map(|(_, _, p, u)| (p, u)).collect()).collect()
}

#[derive(Clone, Debug, PartialEq, Eq)]
pub struct Meaning {
    pub scale: BigRational,
    pub dim: Dim,
    pub affine: bool,
}

pub fn reading_meaning(r: &Reading) -> Meaning {
    let mut scale = BigRational::one();
    let mut dim = DIM0;
    let mut affine = false;
    for (p, u) in r {
        scale *= pow10(*p as i64) * scale_of(u);
        dim = tables::dim_add(&dim, &u.dim, 1);
        affine |= u.affine != Affine::None;
    }
    Meaning { scale, dim, affine }
}

/// The meaning the statement prescribes for a word, if it prescribes one:
/// a bare documented name means that unit; otherwise the word must have
/// readings that all agree.
pub fn word_meaning(word: &str) -> Option<Meaning> {
    if let Some(u) = tables::find_by_name(word) {
        return Some(reading_meaning(&vec![(0, u)]));
    }
    let rs = readings(word);
    let mut it = rs.iter().map(reading_meaning);
    let first = it.next()?;
    if it.all(|m| m == first) {
        Some(first)
    } else {
        None
    }
}

/// The *reading* (sequence of units) used for words in unit expressions where
/// `^n` must bind to the last unit: bare name first, else unique reading.
pub fn word_reading(word: &str) -> Option<Reading> {
    if let Some(u) = tables::find_by_name(word) {
        return Some(vec![(0, u)]);
    }
    let rs = readings(word);
    // conventional preference: one prefixed unit before a product of units
    let singles: Vec<&Reading> = rs.iter().filter(|r| r.len() == 1).collect();
    if singles.len() == 1 {
        return Some(singles[0].clone());
    }
    if singles.is_empty() && rs.len() == 1 {
        return rs.into_iter().next();
    }
    None
}

// ---------------------------------------------------------------------------
// Unit expressions

#[derive(Clone, Debug, PartialEq)]
enum Tok {
    Word(String),
    Star,
    Slash,
    Pow(i64),
}

fn tokenize(s: &str) -> Option<Vec<Tok>> {
    let cs: Vec<char> = s.chars().collect();
    let mut i = 0;
    let mut out = Vec::new();
    while i < cs.len() {
        let c = cs[i];
        if c.is_whitespace() {
            i += 1;
        } else if c == '*' {
            // `**` is the power synonym
            if i + 1 < cs.len() && cs[i + 1] == '*' {
                i += 2;
                let (n, j) = int_at(&cs, i)?;
                out.push(Tok::Pow(n));
                i = j;
            } else {
                out.push(Tok::Star);
                i += 1;
            }
        } else if c == '/' {
            out.push(Tok::Slash);
            i += 1;
        } else if c == '^' {
            i += 1;
            let (n, j) = int_at(&cs, i)?;
            out.push(Tok::Pow(n));
            i = j;
        } else if c.is_ascii_alphabetic() || c == '°' || c == '\'' || c == 'Ω' || c == 'μ' {
            let mut w = String::new();
            while i < cs.len() && (cs[i].is_ascii_alphabetic() || cs[i] == '°' || cs[i] == '\'' || cs[i] == 'Ω' || cs[i] == 'μ') {
                w.push(cs[i]);
                i += 1;
            }
            out.push(Tok::Word(w));
        } else {
            return None;
        }
    }
    Some(out)
}

fn int_at(cs: &[char], mut i: usize) -> Option<(i64, usize)> {
    let mut s = String::new();
    if i < cs.len() && (cs[i] == '-' || cs[i] == '+') {
        s.push(cs[i]);
        i += 1;
    }
    let st = i;
    while i < cs.len() && cs[i].is_ascii_digit() {
        s.push(cs[i]);
        i += 1;
    }
    if i == st {
        return None;
    }
    Some((s.parse().ok()?, i))
}

/// A flattened unit expression: list of (prefix, unit, power).
pub type Flat = Vec<(i32, &'static UnitDef, i64)>;

/// Reference reading of a unit expression per the statement of C05:
/// juxtaposition, `*` and blanks multiply, `/` inverts everything after it
/// (a second `/` inverts again), `^n` applies to the unit it follows.
pub fn unit_expr_flat(s: &str) -> Option<Flat> {
    let toks = tokenize(s)?;
    let mut sign = 1i64;
    let mut out: Flat = Vec::new();
    let mut last: Option<usize> = None;
    for t in toks {
        match t {
            Tok::Word(w) => {
                let r = word_reading(&w)?;
                for (p, u) in r {
                    out.push((p, u, sign));
                    last = Some(out.len() - 1);
                }
            }
            Tok::Star => {
                last = None;
            }
            Tok::Slash => {
                sign = -sign;
                last = None;
            }
            Tok::Pow(n) => {
                let i = last.take()?;
                out[i].2 *= n;
            }
        }
    }
    Some(out)
}

pub fn flat_meaning(f: &Flat) -> Option<Meaning> {
    let mut scale = BigRational::one();
    let mut dim = DIM0;
    let mut affine = false;
    for (p, u, n) in f {
        let fct = pow10(*p as i64) * scale_of(u);
        scale *= rpow(&fct, *n)?;
        dim = tables::dim_add(&dim, &u.dim, *n as i32);
        affine |= u.affine != Affine::None;
    }
    Some(Meaning { scale, dim, affine })
}

pub fn unit_expr(s: &str) -> Option<Meaning> {
    flat_meaning(&unit_expr_flat(s)?)
}

/// Does the expression repeat one unit with two different prefixes (the
/// subject documents this as an error: "mismatching prefix")?
pub fn mixed_prefix(f: &Flat) -> bool {
    for i in 0..f.len() {
        for j in 0..i {
            if std::ptr::eq(f[i].1, f[j].1) && f[i].0 != f[j].0 {
                return true;
            }
        }
    }
    false
}

/// Do all spelled unit tokens cancel syntactically (same unit, net power 0)?
pub fn cancels_to_nothing(f: &Flat) -> bool {
    let mut net: Vec<(*const UnitDef, i64)> = Vec::new();
    for (_, u, n) in f {
        let p = *u as *const UnitDef;
        match net.iter_mut().find(|e| e.0 == p) {
            Some(e) => e.1 += n,
            None => net.push((p, *n)),
        }
    }
    !f.is_empty() && net.iter().all(|e| e.1 == 0)
}
