//! RefDecimal and RefCalc: the reference evaluator of generated expression
//! trees.  Never re-parses the rendered string; never uses
//! `anything::Rational`.

use crate::obs::{pow10, rpow};
use crate::tables::{self, Dim, DIM0};
use crate::units::{self, Si};
use num::{BigInt, BigRational, One, Signed, ToPrimitive, Zero};

/// Own decimal reader: `sign? (d+ ('.' d*)? | '.' d+) ([eE] sign? d+)? '%'?`
pub fn ref_decimal(s: &str) -> Option<BigRational> {
    let b: Vec<char> = s.chars().collect();
    let mut i = 0;
    let mut neg = false;
    if i < b.len() && (b[i] == '+' || b[i] == '-') {
        neg = b[i] == '-';
        i += 1;
    }
    let mut digits = String::new();
    let st = i;
    while i < b.len() && b[i].is_ascii_digit() {
        digits.push(b[i]);
        i += 1;
    }
    let int_digits = i - st;
    let mut frac = 0usize;
    if i < b.len() && b[i] == '.' {
        i += 1;
        while i < b.len() && b[i].is_ascii_digit() {
            digits.push(b[i]);
            i += 1;
            frac += 1;
        }
        if int_digits == 0 && frac == 0 {
            return None;
        }
    } else if int_digits == 0 {
        return None;
    }
    let mut exp: i64 = 0;
    if i < b.len() && (b[i] == 'e' || b[i] == 'E') {
        i += 1;
        let mut eneg = false;
        if i < b.len() && (b[i] == '+' || b[i] == '-') {
            eneg = b[i] == '-';
            i += 1;
        }
        let st = i;
        let mut e = String::new();
        while i < b.len() && b[i].is_ascii_digit() {
            e.push(b[i]);
            i += 1;
        }
        if i == st {
            return None;
        }
        exp = e.parse::<i64>().ok()?;
        if eneg {
            exp = -exp;
        }
    }
    let mut pct = false;
    if i < b.len() && b[i] == '%' {
        pct = true;
        i += 1;
    }
    if i != b.len() {
        return None;
    }
    let n: BigInt = if digits.is_empty() { BigInt::zero() } else { digits.parse().ok()? };
    let mut v = BigRational::from_integer(n) * pow10(exp - frac as i64);
    if neg {
        v = -v;
    }
    if pct {
        v /= BigRational::from_integer(BigInt::from(100));
    }
    Some(v)
}

#[derive(Clone, Copy, PartialEq, Eq, Debug, Hash)]
pub enum Op {
    Add,
    Sub,
    Mul,
    Div,
    Pow,
}

impl Op {
    pub fn text(self) -> &'static str {
        match self {
            Op::Add => "+",
            Op::Sub => "-",
            Op::Mul => "*",
            Op::Div => "/",
            Op::Pow => "^",
        }
    }
    pub fn prio(self) -> u8 {
        match self {
            Op::Add | Op::Sub => 2,
            Op::Mul | Op::Div => 3,
            Op::Pow => 10,
        }
    }
    pub const ALL: [Op; 5] = [Op::Add, Op::Sub, Op::Mul, Op::Div, Op::Pow];
}

#[derive(Clone, Debug)]
pub enum Expr {
    /// plain decimal literal (may end in %)
    Num(String),
    /// literal with a unit spelling, rendered `<lit> <unit>`
    Qty(String, String),
    /// a pre-evaluated leaf (fact phrase etc.): text + SI value
    Leaf(String, Si),
    Bin(Box<Expr>, Op, Box<Expr>),
    Paren(Box<Expr>),
    To(Box<Expr>, String),
}

pub fn num(s: &str) -> Expr {
    Expr::Num(s.to_string())
}
pub fn qty(l: &str, u: &str) -> Expr {
    Expr::Qty(l.to_string(), u.to_string())
}
pub fn bin(a: Expr, op: Op, b: Expr) -> Expr {
    Expr::Bin(Box::new(a), op, Box::new(b))
}
pub fn paren(a: Expr) -> Expr {
    Expr::Paren(Box::new(a))
}
pub fn to(a: Expr, u: &str) -> Expr {
    Expr::To(Box::new(a), u.to_string())
}

impl Expr {
    /// Canonical rendering: one blank around every binary operator and `to`,
    /// one blank between literal and unit.
    pub fn render(&self) -> String {
        match self {
            Expr::Num(s) => s.clone(),
            Expr::Qty(l, u) => format!("{l} {u}"),
            Expr::Leaf(s, _) => s.clone(),
            Expr::Bin(a, op, b) => format!("{} {} {}", a.render(), op.text(), b.render()),
            Expr::Paren(a) => format!("({})", a.render()),
            Expr::To(a, u) => format!("{} to {}", a.render(), u),
        }
    }
    pub fn leaves(&self) -> usize {
        match self {
            Expr::Bin(a, _, b) => a.leaves() + b.leaves(),
            Expr::Paren(a) | Expr::To(a, _) => a.leaves(),
            _ => 1,
        }
    }
}

#[derive(Clone, Debug)]
pub enum RefVal {
    /// value in SI coherent units with its dimension vector; `plain` = no
    /// unit was ever attached (a plain number adopts the other unit in + -).
    Defined { si: Si, plain: bool },
    /// the statement prescribes an error (division by zero, incommensurable)
    Undefined(&'static str),
    /// the statement is silent
    DontCare(&'static str),
}

const MAX_BITS: u64 = 1_000_000;

fn bits(v: &BigRational) -> u64 {
    v.numer().bits() + v.denom().bits()
}

pub fn ref_eval(e: &Expr) -> RefVal {
    use RefVal::*;
    match e {
        Expr::Num(s) => match ref_decimal(s) {
            Some(v) => Defined { si: Si { value: v, dim: DIM0 }, plain: true },
            None => DontCare("not a well-formed literal"),
        },
        Expr::Qty(l, u) => {
            let v = match ref_decimal(l) {
                Some(v) => v,
                None => return DontCare("not a well-formed literal"),
            };
            let flat = match units::unit_expr_flat(u) {
                Some(f) => f,
                None => return DontCare("unit spelling without a unique reference reading"),
            };
            if units::mixed_prefix(&flat) {
                return DontCare("one unit with two prefixes");
            }
            let m = match units::flat_meaning(&flat) {
                Some(m) => m,
                None => return DontCare("unit meaning undefined"),
            };
            if m.affine {
                return DontCare("offset scale");
            }
            if units::cancels_to_nothing(&flat) {
                return DontCare("spelled unit cancels to nothing");
            }
            Defined { si: Si { value: v * m.scale, dim: m.dim }, plain: false }
        }
        // a looked-up fact without a unit behaves as a plain number
        Expr::Leaf(_, si) => Defined { si: si.clone(), plain: si.dim == DIM0 },
        Expr::Paren(a) => ref_eval(a),
        Expr::To(a, u) => {
            let a = match ref_eval(a) {
                Defined { si, plain } => (si, plain),
                other => return other,
            };
            let m = match units::unit_expr(u) {
                Some(m) => m,
                None => return DontCare("target unit without a unique reference reading"),
            };
            if m.affine {
                return DontCare("offset scale");
            }
            if a.1 {
                // plain number cast to a unit: adopts the unit
                return Defined { si: Si { value: a.0.value * m.scale, dim: m.dim }, plain: false };
            }
            if a.0.dim != m.dim {
                return Undefined("cast between incommensurable units");
            }
            Defined { si: a.0, plain: false }
        }
        Expr::Bin(a, op, b) => {
            let (av, ap) = match ref_eval(a) {
                Defined { si, plain } => (si, plain),
                Undefined(r) => {
                    // still look right for DontCare
                    return match ref_eval(b) {
                        DontCare(r2) => DontCare(r2),
                        _ => Undefined(r),
                    };
                }
                other => return other,
            };
            let (bv, bp) = match ref_eval(b) {
                Defined { si, plain } => (si, plain),
                other => return other,
            };
            match op {
                Op::Add | Op::Sub => {
                    let (x, y, dim, plain) = if ap && bp {
                        (av.value, bv.value, DIM0, true)
                    } else if ap || bp {
                        // The plain number adopts the quantity's unit — which
                        // concrete unit (not only dimension) that is cannot be
                        // known from SI form alone; callers that need it use
                        // dedicated oracles (C02). Here: DontCare unless the
                        // quantity side is dimensionless.
                        return DontCare("plain number combined with a quantity (C02's oracle)");
                    } else if av.dim != bv.dim {
                        if av.dim == DIM0 || bv.dim == DIM0 {
                            // `kg/kg + kg`: the statement does not say whether a
                            // computed dimensionless quantity counts as a plain number
                            return DontCare("dimensionless computed quantity combined with a quantity");
                        }
                        return Undefined("sum of incommensurable quantities");
                    } else {
                        (av.value, bv.value, av.dim, false)
                    };
                    let v = if *op == Op::Add { x + y } else { x - y };
                    Defined { si: Si { value: v, dim }, plain }
                }
                Op::Mul => {
                    if bits(&av.value) + bits(&bv.value) > MAX_BITS {
                        return DontCare("result too large");
                    }
                    Defined { si: Si { value: av.value * bv.value, dim: tables::dim_add(&av.dim, &bv.dim, 1) }, plain: ap && bp }
                }
                Op::Div => {
                    if bv.value.is_zero() {
                        return Undefined("division by zero");
                    }
                    Defined { si: Si { value: av.value / bv.value, dim: tables::dim_add(&av.dim, &bv.dim, -1) }, plain: ap && bp }
                }
                Op::Pow => {
                    if !bp || bv.dim != DIM0 {
                        return DontCare("exponent with a unit");
                    }
                    if !bv.value.is_integer() {
                        return DontCare("non-integer exponent");
                    }
                    let n = match bv.value.numer().to_i64() {
                        Some(n) => n,
                        None => return DontCare("result too large"),
                    };
                    if n.unsigned_abs() > 1000 {
                        // the subject's repeated-multiplication power (and num's
                        // gcd(x, 1)) is quadratic in the exponent; nothing is
                        // claimed beyond three-digit exponents
                        return DontCare("exponent magnitude > 1000");
                    }
                    if av.value.is_zero() {
                        if n < 0 {
                            return Undefined("zero to a negative power");
                        }
                        if n == 0 {
                            return DontCare("0^0");
                        }
                    }
                    if (bits(&av.value).max(1)).saturating_mul(n.unsigned_abs()) > MAX_BITS {
                        return DontCare("result too large");
                    }
                    let mut dim: Dim = DIM0;
                    for i in 0..8 {
                        dim[i] = av.dim[i] * n as i32;
                    }
                    match rpow(&av.value, n) {
                        Some(v) => Defined { si: Si { value: v, dim }, plain: ap },
                        None => Undefined("zero to a negative power"),
                    }
                }
            }
        }
    }
}

pub fn is_small_int(v: &BigRational, max: i64) -> bool {
    v.is_integer() && v.numer().abs() <= BigInt::from(max)
}

pub fn one() -> BigRational {
    BigRational::one()
}

// ---------------------------------------------------------------------------
// JSON (de)serialisation of trees for case payloads.

pub fn to_json(e: &Expr) -> serde_json::Value {
    use serde_json::json;
    match e {
        Expr::Num(s) => json!({"n": s}),
        Expr::Qty(l, u) => json!({"q": [l, u]}),
        Expr::Leaf(s, si) => json!({"l": [s, si.value.numer().to_string(), si.value.denom().to_string(), si.dim.to_vec()]}),
        Expr::Bin(a, op, b) => json!({"b": [to_json(a), op.text(), to_json(b)]}),
        Expr::Paren(a) => json!({"p": to_json(a)}),
        Expr::To(a, u) => json!({"t": [to_json(a), u]}),
    }
}

pub fn from_json(v: &serde_json::Value) -> Expr {
    if let Some(s) = v.get("n") {
        return Expr::Num(s.as_str().unwrap().to_string());
    }
    if let Some(q) = v.get("q") {
        return Expr::Qty(q[0].as_str().unwrap().to_string(), q[1].as_str().unwrap().to_string());
    }
    if let Some(l) = v.get("l") {
        let n: BigInt = l[1].as_str().unwrap().parse().unwrap();
        let d: BigInt = l[2].as_str().unwrap().parse().unwrap();
        let mut dim = DIM0;
        for (i, x) in l[3].as_array().unwrap().iter().enumerate() {
            dim[i] = x.as_i64().unwrap() as i32;
        }
        return Expr::Leaf(l[0].as_str().unwrap().to_string(), Si { value: BigRational::new(n, d), dim });
    }
    if let Some(b) = v.get("b") {
        let op = match b[1].as_str().unwrap() {
            "+" => Op::Add,
            "-" => Op::Sub,
            "*" => Op::Mul,
            "/" => Op::Div,
            _ => Op::Pow,
        };
        return Expr::Bin(Box::new(from_json(&b[0])), op, Box::new(from_json(&b[2])));
    }
    if let Some(p) = v.get("p") {
        return Expr::Paren(Box::new(from_json(p)));
    }
    if let Some(t) = v.get("t") {
        return Expr::To(Box::new(from_json(&t[0])), t[1].as_str().unwrap().to_string());
    }
    panic!("bad tree json {v}")
}

// ---------------------------------------------------------------------------
// RefRound

/// floor of a rational
pub fn ref_floor(v: &BigRational) -> BigInt {
    use num::Integer;
    v.numer().div_floor(v.denom())
}

pub fn ref_ceil(v: &BigRational) -> BigInt {
    -ref_floor(&-v.clone())
}

/// nearest integer, halves away from zero
pub fn ref_round(v: &BigRational) -> BigInt {
    let half = BigRational::new(BigInt::from(1), BigInt::from(2));
    if v.is_negative() {
        -ref_floor(&(-v.clone() + &half))
    } else {
        ref_floor(&(v.clone() + &half))
    }
}

/// nearest multiple of 10^-n, halves away from zero
pub fn ref_round_digits(v: &BigRational, n: i64) -> BigRational {
    let s = pow10(n);
    BigRational::from_integer(ref_round(&(v.clone() * &s))) / s
}
