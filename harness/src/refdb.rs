//! RefDb: independent decode of the shipped data files (flate2 + serde_cbor
//! into untyped `Value`s; none of the subject's types are used).

use flate2::read::GzDecoder;
use num::{BigInt, BigRational};
use serde_cbor::Value;
use std::io::Read;
use std::path::PathBuf;

#[derive(Clone, Debug)]
pub struct RefConstant {
    pub file: String,
    pub tokens: Vec<String>,
    pub description: Option<String>,
    pub source: Option<u64>,
    pub value: Option<BigRational>,
    /// the raw "unit" value
    pub unit: Option<Value>,
    /// the whole constant as raw CBOR
    pub raw: Value,
}

pub fn repo_dir() -> PathBuf {
    PathBuf::from(std::env::var("VH_REPO").unwrap_or_else(|_| "/repo".into()))
}

pub fn read_gz(path: &std::path::Path) -> Vec<u8> {
    let f = std::fs::File::open(path).unwrap_or_else(|e| panic!("open {}: {e}", path.display()));
    let mut d = GzDecoder::new(f);
    let mut out = Vec::new();
    d.read_to_end(&mut out).expect("gunzip");
    out
}

fn get<'a>(m: &'a Value, k: &str) -> Option<&'a Value> {
    match m {
        Value::Map(m) => m.get(&Value::Text(k.to_string())),
        _ => None,
    }
}

fn bigint_of(v: &Value) -> Option<BigInt> {
    // num-bigint serde format: (sign, [u32 digits little endian])
    match v {
        Value::Array(a) if a.len() == 2 => {
            let sign = match &a[0] {
                Value::Integer(i) => *i,
                _ => return None,
            };
            let mut n = BigInt::from(0);
            if let Value::Array(ds) = &a[1] {
                for d in ds.iter().rev() {
                    if let Value::Integer(x) = d {
                        n = (n << 32) + BigInt::from(*x as u64);
                    } else {
                        return None;
                    }
                }
            } else {
                return None;
            }
            Some(if sign < 0 { -n } else { n })
        }
        _ => None,
    }
}

pub fn rational_of(v: &Value) -> Option<BigRational> {
    // num-rational serde format: (numer, denom)
    match v {
        Value::Array(a) if a.len() == 2 => {
            let n = bigint_of(&a[0])?;
            let d = bigint_of(&a[1])?;
            if d == BigInt::from(0) {
                return None;
            }
            Some(BigRational::new(n, d))
        }
        _ => None,
    }
}

/// All constants in file-name order, then document order (the feed order of
/// the subject's index build).
pub fn constants() -> Vec<RefConstant> {
    let dir = repo_dir().join("db");
    let mut files: Vec<_> = std::fs::read_dir(&dir).expect("db dir").filter_map(|e| e.ok()).map(|e| e.path()).filter(|p| p.to_string_lossy().ends_with(".bin.gz")).collect();
    files.sort();
    let mut out = Vec::new();
    for f in files {
        let name = f.file_name().unwrap().to_string_lossy().to_string();
        if name == "sources.bin.gz" {
            continue;
        }
        let bytes = read_gz(&f);
        let doc: Value = serde_cbor::from_slice(&bytes).expect("cbor");
        if let Some(Value::Array(cs)) = get(&doc, "constants") {
            for c in cs {
                let tokens = match get(c, "tokens") {
                    Some(Value::Array(t)) => t.iter().filter_map(|x| if let Value::Text(s) = x { Some(s.clone()) } else { None }).collect(),
                    _ => vec![],
                };
                out.push(RefConstant {
                    file: name.clone(),
                    tokens,
                    description: get(c, "description").and_then(|d| if let Value::Text(s) = d { Some(s.clone()) } else { None }),
                    source: get(c, "source").and_then(|d| if let Value::Integer(i) = d { Some(*i as u64) } else { None }),
                    value: get(c, "value").and_then(rational_of),
                    unit: get(c, "unit").cloned(),
                    raw: c.clone(),
                });
            }
        }
    }
    out
}

/// The sources of sources.bin.gz: (id, description, url), read without the subject's types.
pub fn sources() -> Vec<(u64, Option<String>, Option<String>)> {
    let p = repo_dir().join("db").join("sources.bin.gz");
    if !p.exists() {
        return vec![];
    }
    let doc: Value = serde_cbor::from_slice(&read_gz(&p)).expect("cbor");
    let text = |s: &Value, k: &str| get(s, k).and_then(|d| if let Value::Text(t) = d { Some(t.clone()) } else { None });
    let mut out = Vec::new();
    if let Some(Value::Array(ss)) = get(&doc, "sources") {
        for s in ss {
            if let Some(Value::Integer(i)) = get(s, "id") {
                out.push((*i as u64, text(s, "description"), text(s, "url")));
            }
        }
    }
    out
}

/// Source ids present in sources.bin.gz.
pub fn source_ids() -> Vec<u64> {
    let p = repo_dir().join("db").join("sources.bin.gz");
    if !p.exists() {
        return vec![];
    }
    let doc: Value = serde_cbor::from_slice(&read_gz(&p)).expect("cbor");
    let mut out = Vec::new();
    if let Some(Value::Array(ss)) = get(&doc, "sources") {
        for s in ss {
            if let Some(Value::Integer(i)) = get(s, "id") {
                out.push(*i as u64);
            }
        }
    }
    out
}
