//! Independent unit definition table (RefUnits data).
//!
//! Written from the SI brochure (9th ed.), the 1959 international
//! yard-and-pound agreement (yd = 0.9144 m, lb = 0.45359237 kg), US customary
//! liquid measure (gal = 231 in³) and imperial avoirdupois multiples — *not*
//! from `src/units`.  Names and numeric ids are the documented ones of
//! `tools/gen/data.toml` (the ids are the stable wire format, pinned here).
//!
//! `scale` is the meaning the repository documents (doc comment + pinned
//! test); `standard` is set only where that documented meaning is not any
//! reading of the name in the cited standards (checked by C05 only, all other
//! properties compare in the documented meaning so one deviation cannot
//! cascade).

use num::{BigInt, BigRational};

/// Dimension vector order.
pub const DIMS: [&str; 8] = ["kg", "m", "s", "A", "K", "mol", "cd", "B"];
pub type Dim = [i32; 8];

#[derive(Clone, Copy, PartialEq, Eq, Debug)]
pub enum Affine {
    None,
    /// K = x + 273.15
    Celsius,
    /// K = (x - 32) * 5/9 + 273.15
    Fahrenheit,
}

pub struct UnitDef {
    /// variant name of a base unit as serialised, or "" for derived
    pub base: &'static str,
    /// documented numeric id of a derived unit (0 for base units)
    pub id: u32,
    pub names: &'static [&'static str],
    /// exact scale to SI coherent units: "numer/denom" (decimal strings, may use e-notation)
    pub scale: &'static str,
    /// standard scale where the documented one is no reading of the standards
    pub standard: Option<&'static str>,
    pub dim: Dim,
    pub affine: Affine,
    /// the prefix value the subject records for the bare name (gram: -3 on KiloGram)
    pub bias: i32,
    pub note: &'static str,
}

const fn d(kg: i32, m: i32, s: i32, a: i32, k: i32, mol: i32, cd: i32, b: i32) -> Dim {
    [kg, m, s, a, k, mol, cd, b]
}

macro_rules! u {
    ($base:expr, $id:expr, $names:expr, $scale:expr, $dim:expr) => {
        UnitDef { base: $base, id: $id, names: $names, scale: $scale, standard: None, dim: $dim, affine: Affine::None, bias: 0, note: "" }
    };
    ($base:expr, $id:expr, $names:expr, $scale:expr, $dim:expr, note $note:expr) => {
        UnitDef { base: $base, id: $id, names: $names, scale: $scale, standard: None, dim: $dim, affine: Affine::None, bias: 0, note: $note }
    };
    ($base:expr, $id:expr, $names:expr, $scale:expr, $dim:expr, std $std:expr, note $note:expr) => {
        UnitDef { base: $base, id: $id, names: $names, scale: $scale, standard: Some($std), dim: $dim, affine: Affine::None, bias: 0, note: $note }
    };
}

const T: Dim = d(0, 0, 1, 0, 0, 0, 0, 0);
const L: Dim = d(0, 1, 0, 0, 0, 0, 0, 0);
const L2: Dim = d(0, 2, 0, 0, 0, 0, 0, 0);
const L3: Dim = d(0, 3, 0, 0, 0, 0, 0, 0);
const M: Dim = d(1, 0, 0, 0, 0, 0, 0, 0);
const ENERGY: Dim = d(1, 2, -2, 0, 0, 0, 0, 0);
const VEL: Dim = d(0, 1, -1, 0, 0, 0, 0, 0);
const ACC: Dim = d(0, 1, -2, 0, 0, 0, 0, 0);

pub static UNITS: &[UnitDef] = &[
    // ---- SI base units (plus byte) -------------------------------------
    u!("Second", 0, &["s", "sec", "second", "seconds"], "1", T),
    u!("Meter", 0, &["m", "metre", "meter", "meters"], "1", L),
    UnitDef { base: "KiloGram", id: 0, names: &["g", "gram"], scale: "1/1000", standard: None, dim: M, affine: Affine::None, bias: -3, note: "gram = 1e-3 kg; the subject stores it as KiloGram with prefix -3" },
    u!("Ampere", 0, &["A", "ampere", "amperes"], "1", d(0, 0, 0, 1, 0, 0, 0, 0)),
    u!("Kelvin", 0, &["K", "kelvin", "kelvins"], "1", d(0, 0, 0, 0, 1, 0, 0, 0)),
    u!("Mole", 0, &["mol", "mols", "mole", "moles"], "1", d(0, 0, 0, 0, 0, 1, 0, 0)),
    u!("Candela", 0, &["cd", "candela", "candelas"], "1", d(0, 0, 0, 0, 0, 0, 1, 0)),
    u!("Byte", 0, &["B", "byte"], "1", d(0, 0, 0, 0, 0, 0, 0, 1)),
    // ---- time ------------------------------------------------------------
    u!("", 0x3cea0000, &["minute", "minutes", "min", "mins"], "60", T),
    u!("", 0x3cea0001, &["h", "hr", "hour", "hours"], "3600", T),
    u!("", 0x3cea0003, &["dy", "day", "days"], "86400", T),
    u!("", 0x3cea0004, &["wk", "week", "weeks"], "604800", T),
    u!("", 0x3cea0005, &["mth", "mths", "month", "months"], "2629800", T, note "documented: 1/12 Julian year"),
    u!("", 0x3cea1000, &["y", "yr", "yrs", "year", "years"], "31557600", T, note "Julian year 365.25 d (IAU)"),
    u!("", 0x3cea2000, &["decade", "decades"], "315576000", T),
    u!("", 0x3cea3000, &["century", "centuries"], "3155760000", T),
    u!("", 0x3cea4000, &["M", "millenium", "milleniums", "millenia"], "31557600000", T),
    // ---- mass ------------------------------------------------------------
    u!("", 0x7b15d4d8, &["ton", "tons", "tonne", "tonnes"], "1000", M, note "metric ton"),
    u!("", 0x95583f60, &["Da", "dalton", "daltons"], "332107813321/200000000000", M,
        std "166053906660e-38", note "documented+pinned (tests/entry/mass.rs::test_dalton) as 1.660539066605 kg; CODATA 2018: 1.66053906660e-27 kg"),
    // ---- volume ----------------------------------------------------------
    u!("", 0x1c108ba2, &["l", "L", "litre", "litres"], "1/1000", L3),
    u!("", 0xb36964a0, &["cc"], "1/1000000", L3),
    u!("", 0x1c108ba3, &["gal", "gals", "gallon", "gallons"], "3785411784/1000000000000", L3, note "US liquid gallon = 231 in^3"),
    u!("", 0x1c108ba4, &["pint", "pints"], "3785411784/2000000000000", L3,
        std "3785411784/8000000000000", note "documented+pinned (test_pint) as 1/2 gallon; US liquid pint is 1/8 gallon"),
    u!("", 0x1c108ba5, &["quart", "quarts"], "3785411784/4000000000000", L3),
    u!("", 0x1c108ba6, &["cup", "cups"], "3785411784/16000000000000", L3),
    u!("", 0x1c108ba7, &["gill", "gills"], "3785411784/32000000000000", L3),
    u!("", 0x1c108ba8, &["floz", "flozs"], "3785411784/128000000000000", L3),
    u!("", 0x1c108ba9, &["tbsp", "tbsps", "tablespoon", "tablespoons"], "3785411784/256000000000000", L3),
    u!("", 0x1c108baa, &["tsp", "tsps", "teaspoon", "teaspoons"], "3785411784/768000000000000", L3),
    // ---- area ------------------------------------------------------------
    u!("", 0xbf2e000f, &["ha", "hectare", "hectares"], "10000", L2),
    u!("", 0xf153d092, &["perch", "perches"], "25.29285264", L2, note "square rod (5.0292 m)^2"),
    u!("", 0x20541ce3, &["rood", "roods"], "1011.7141056", L2),
    u!("", 0xe44777d2, &["acre", "acres"], "4046.8564224", L2),
    // ---- kinematics, mechanics -------------------------------------------
    u!("", 0xaab4f36c, &["a", "acc", "acceleration"], "1", ACC),
    u!("", 0x47dd35dc, &["v", "vel", "velocity"], "1", VEL),
    u!("", 0xb82b2151, &["gforce", "g-force"], "9.80665", ACC, note "standard gravity"),
    u!("", 0x150ab031, &["N", "newton", "newtons"], "1", d(1, 1, -2, 0, 0, 0, 0, 0)),
    u!("", 0xd575976d, &["Pa", "pascal", "pascals"], "1", d(1, -1, -2, 0, 0, 0, 0, 0)),
    u!("", 0xe0796773, &["J", "joule"], "1", ENERGY),
    u!("", 0xcf847a94, &["btu"], "1055", ENERGY, note "documented as 1055 J (the customary rounding; IT 1055.056, thermochemical 1054.35)"),
    u!("", 0x007adc81, &["eV", "electronvolt", "electronvolts"], "1.602176634e-19", ENERGY),
    u!("", 0xa977f890, &["W", "watt", "watts"], "1", d(1, 2, -3, 0, 0, 0, 0, 0)),
    u!("", 0xf57d5095, &["C", "coulomb", "coulombs"], "1", d(0, 0, 1, 1, 0, 0, 0, 0)),
    u!("", 0x27475ce0, &["V", "volt", "volts"], "1", d(1, 2, -3, -1, 0, 0, 0, 0)),
    u!("", 0xcea46875, &["F", "farad", "farads"], "1", d(-1, -2, 4, 2, 0, 0, 0, 0)),
    u!("", 0x4c6815d9, &["Ω", "ohm", "ohms"], "1", d(1, 2, -3, -2, 0, 0, 0, 0)),
    u!("", 0xd87739a9, &["S", "siemens"], "1", d(-1, -2, 3, 2, 0, 0, 0, 0)),
    u!("", 0x69ca6c0a, &["Wb", "weber", "webers"], "1", d(1, 2, -2, -1, 0, 0, 0, 0)),
    u!("", 0x731514a7, &["T", "tesla", "teslas"], "1", d(1, 0, -2, -1, 0, 0, 0, 0)),
    u!("", 0xef26a9d5, &["H", "henry", "henrys", "henries"], "1", d(1, 2, -2, -2, 0, 0, 0, 0)),
    u!("", 0x359318c2, &["lm", "lumen", "lumens"], "1", d(0, 0, 0, 0, 0, 0, 1, 0), note "cd sr; sr dimensionless"),
    u!("", 0xad603e6d, &["lx", "lux"], "1", d(0, -2, 0, 0, 0, 0, 1, 0)),
    u!("", 0x7c25d25c, &["Bq", "becquerel", "becquerels"], "1", d(0, 0, -1, 0, 0, 0, 0, 0)),
    u!("", 0x6008fcb5, &["Gy", "gray", "grays"], "1", d(0, 2, -2, 0, 0, 0, 0, 0)),
    u!("", 0xcd0fdf3b, &["Sv", "sievert", "sieverts"], "1", d(0, 2, -2, 0, 0, 0, 0, 0)),
    u!("", 0x9645d02f, &["kat", "katal", "katals"], "1", d(0, 0, -1, 0, 0, 1, 0, 0)),
    u!("", 0x8e8393e6, &["c"], "299792458", VEL),
    u!("", 0xc8545958, &["kt", "knot", "knots"], "1852/3600", VEL),
    // ---- length ----------------------------------------------------------
    u!("", 0xc790db55, &["au"], "149597870700", L),
    u!("", 0x50d53fb0, &["ftm", "fathom", "fathoms"], "1.852", L, note "documented+pinned as 1/1000 international nautical mile (one of the traditional definitions; 2 yd = 1.8288 m is the other)"),
    u!("", 0xd9192122, &["cable", "cables"], "185.2", L, note "1/10 nautical mile"),
    u!("", 0xd767fd82, &["NM", "nmi"], "1852", L),
    u!("", 0x9618566f, &["link", "links"], "0.201168", L),
    u!("", 0x7ad5cf6d, &["rd", "rod", "rods"], "5.0292", L),
    u!("", 0xd3c90010, &["th", "thou", "thous"], "0.0000254", L),
    u!("", 0xd3c90020, &["Bc", "barleycorn", "barleycorns"], "254/30000", L),
    u!("", 0xd3c90000, &["in", "inch", "inches"], "0.0254", L),
    u!("", 0xd3c90030, &["hand", "hands"], "0.1016", L),
    u!("", 0xd3c90001, &["ft", "feet", "feets"], "0.3048", L),
    u!("", 0xd3c90002, &["yd", "yard", "yards"], "0.9144", L),
    u!("", 0xe8db8915, &["ch", "chain", "chains"], "20.1168", L),
    u!("", 0xd3c90040, &["fur", "furlong", "furlongs"], "201.168", L),
    u!("", 0xd3c90003, &["mi", "mile", "miles"], "1609.344", L),
    u!("", 0xd3c90004, &["lea", "league", "leagues"], "4828.032", L),
    // ---- avoirdupois mass -----------------------------------------------
    u!("", 0xf4321939, &["gr", "grain", "grains"], "45359237/700000000000", M, note "lb/7000"),
    u!("", 0xa3592b8c, &["dr", "drachm", "drachms"], "45359237/25600000000", M, note "lb/256"),
    u!("", 0x7c3b47da, &["oz", "ounce", "ounces"], "45359237/1600000000", M, note "lb/16"),
    u!("", 0xe0482a36, &["lb", "pound", "pounds"], "0.45359237", M),
    u!("", 0xc827fd0d, &["st", "stone", "stones"], "6.35029318", M, note "14 lb"),
    u!("", 0x20f6787b, &["qr", "qtr", "quarter", "quarters"], "12.70058636", M, note "imperial quarter 28 lb"),
    u!("", 0xf97a5980, &["cwt", "hundredweight", "hundredweights"], "50.80234544", M, note "imperial (long) hundredweight 112 lb"),
    u!("", 0xccbb6466, &["t"], "1016.0469088", M,
        std "1000", note "documented+pinned (test_ton) as the imperial long ton 2240 lb; the SI brochure reserves the symbol t for the tonne"),
    u!("", 0x28eaf41b, &["slug", "slugs"], "14.59390294", M, note "lbf s^2/ft rounded to 8 decimals as commonly tabulated"),
    // ---- temperature scales ----------------------------------------------
    UnitDef { base: "", id: 0xde39ff06, names: &["°C", "celsius"], scale: "1", standard: None, dim: d(0, 0, 0, 0, 1, 0, 0, 0), affine: Affine::Celsius, bias: 0, note: "" },
    UnitDef { base: "", id: 0x3a824baa, names: &["°F", "fahrenheit"], scale: "5/9", standard: None, dim: d(0, 0, 0, 0, 1, 0, 0, 0), affine: Affine::Fahrenheit, bias: 0, note: "" },
    // ---- misc --------------------------------------------------------------
    u!("", 0x445f9706, &["sp"], "1", T, note "specific impulse in seconds"),
];

/// (symbol, long name, power of ten)
pub static PREFIXES: &[(&str, &str, i32)] = &[
    ("Y", "yotta", 24),
    ("Z", "zetta", 21),
    ("E", "exa", 18),
    ("P", "peta", 15),
    ("T", "tera", 12),
    ("G", "giga", 9),
    ("M", "mega", 6),
    ("k", "kilo", 3),
    ("h", "hecto", 2),
    ("da", "deca", 1),
    ("d", "deci", -1),
    ("c", "centi", -2),
    ("m", "milli", -3),
    ("μ", "micro", -6),
    ("n", "nano", -9),
    ("p", "pico", -12),
    ("f", "femto", -15),
    ("a", "atto", -18),
    ("z", "zepto", -21),
    ("y", "yocto", -24),
];

/// Parse "a/b", "1.25", "1.6e-19" into an exact rational.
pub fn parse_scale(s: &str) -> BigRational {
    fn dec(s: &str) -> BigRational {
        let (mant, exp) = match s.find(|c| c == 'e' || c == 'E') {
            Some(i) => (&s[..i], s[i + 1..].parse::<i64>().expect("exp")),
            None => (s, 0),
        };
        let (int, frac) = match mant.find('.') {
            Some(i) => (&mant[..i], &mant[i + 1..]),
            None => (mant, ""),
        };
        let digits = format!("{int}{frac}");
        let n: BigInt = digits.parse().expect("digits");
        let k = exp - frac.len() as i64;
        BigRational::from_integer(n) * crate::obs::pow10(k)
    }
    match s.find('/') {
        Some(i) => dec(&s[..i]) / dec(&s[i + 1..]),
        None => dec(s),
    }
}

pub fn find_by_id(id: u32) -> Option<&'static UnitDef> {
    UNITS.iter().find(|u| u.id == id && u.base.is_empty())
}

pub fn find_by_base(name: &str) -> Option<&'static UnitDef> {
    UNITS.iter().find(|u| !u.base.is_empty() && u.base == name)
}

pub fn find_by_name(name: &str) -> Option<&'static UnitDef> {
    UNITS.iter().find(|u| u.names.contains(&name))
}

/// Can the word be carried by the query lexer as one WORD token?
pub fn typeable(word: &str) -> bool {
    !word.is_empty()
        && word != "to"
        && word.chars().all(|c| c.is_ascii_alphanumeric() || c == '°' || c == '\'')
        && !word.chars().next().unwrap().is_ascii_digit()
}

pub fn dim_add(a: &Dim, b: &Dim, n: i32) -> Dim {
    let mut o = *a;
    for i in 0..8 {
        o[i] += b[i] * n;
    }
    o
}

pub const DIM0: Dim = [0; 8];

pub fn dim_text(d: &Dim) -> String {
    let mut s = Vec::new();
    for i in 0..8 {
        if d[i] != 0 {
            s.push(format!("{}^{}", DIMS[i], d[i]));
        }
    }
    if s.is_empty() {
        "1".into()
    } else {
        s.join(" ")
    }
}
