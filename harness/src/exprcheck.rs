//! Shared judge for expression-tree based checks: compares the subject's
//! result on the rendered tree with RefCalc on the tree itself, and shrinks a
//! failing tree to its minimal failing subtree (used as the signature).

use crate::fw::{self, Verdict};
use crate::obs::{self, Res};
use crate::refcalc::{ref_eval, Expr, RefVal};
use crate::units;
use anything::Db;

pub enum Judged {
    Agree { obs: u64 },
    DontCare(&'static str),
    Mismatch(String),
}

/// `si_only`: compare in SI normal form (value and dimension).
pub fn judge(db: &Db, e: &Expr) -> Judged {
    judge_text(db, e, &e.render())
}

pub fn judge_text(db: &Db, e: &Expr, text: &str) -> Judged {
    let want = ref_eval(e);
    if let RefVal::DontCare(r) = want {
        return Judged::DontCare(r);
    }
    let got = match obs::eval_one(db, text) {
        Ok(r) => r,
        Err(why) => return Judged::Mismatch(format!("expected exactly one result, got {why}")),
    };
    match (&want, &got) {
        (RefVal::Undefined(_), Res::Err { msg, .. }) => Judged::Agree { obs: fw::hash_str(&format!("E:{msg}")) },
        (RefVal::Undefined(r), Res::Ok { .. }) => Judged::Mismatch(format!("statement prescribes an error ({r}), tool returned {}", got.short())),
        (RefVal::Defined { si, .. }, Res::Err { msg, .. }) => Judged::Mismatch(format!("expected {} , tool reported error: {msg}", si.short())),
        (RefVal::Defined { si, .. }, Res::Ok { value, unit, .. }) => match units::si_of(value, unit, false) {
            Err(e) if e.contains("is not in the documented table") => Judged::DontCare("the result carries a unit that is not in the harness's table"),
            Err(e) => Judged::Mismatch(format!("result unit not interpretable: {e}")),
            Ok(gsi) => {
                if &gsi == si {
                    Judged::Agree { obs: fw::hash_str(&gsi.short()) }
                } else {
                    Judged::Mismatch(format!("expected {} , got {} (displayed as {})", si.short(), gsi.short(), got.short()))
                }
            }
        },
        (RefVal::DontCare(_), _) => unreachable!(),
    }
}

fn children(e: &Expr) -> Vec<&Expr> {
    match e {
        Expr::Bin(a, _, b) => vec![a, b],
        Expr::Paren(a) | Expr::To(a, _) => vec![a],
        _ => vec![],
    }
}

/// Smallest subtree that still mismatches when evaluated on its own.
pub fn minimal_failing<'a>(db: &Db, e: &'a Expr) -> &'a Expr {
    for c in children(e) {
        if let Judged::Mismatch(_) = judge(db, c) {
            return minimal_failing(db, c);
        }
    }
    e
}

pub fn verdict(db: &Db, e: &Expr, nontrivial: bool) -> Verdict {
    match judge(db, e) {
        Judged::Agree { obs } => fw::pass(nontrivial, obs),
        Judged::DontCare(r) => Verdict::DontCare(r),
        Judged::Mismatch(why) => {
            let m = minimal_failing(db, e);
            fw::fail(format!("min:{}", m.render()), format!("{why}; minimal failing sub-expression: `{}`", m.render()))
        }
    }
}
