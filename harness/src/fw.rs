//! Framework: sharded exhaustive enumeration in worker subprocesses, verdict
//! collection, known-finding classification, evidence and replay files.
//!
//! A *property check* enumerates a finite case space deterministically
//! (`Prop::generate`), every worker process re-runs the enumeration and
//! evaluates the cases whose key hashes into its shard, so distinct keys are
//! evaluated exactly once and per-shard distinct counts add up.

use serde::{Deserialize, Serialize};
use std::collections::{BTreeMap, HashMap, HashSet};
use std::io::Write;
use std::path::{Path, PathBuf};
use std::sync::atomic::{AtomicU64, AtomicUsize, Ordering};
use std::time::{Duration, Instant};

#[derive(Clone, Copy, PartialEq, Eq, Debug)]
pub enum Tier {
    Quick,
    Thorough,
}

impl Tier {
    pub fn name(self) -> &'static str {
        match self {
            Tier::Quick => "quick",
            Tier::Thorough => "thorough",
        }
    }
    pub fn parse(s: &str) -> Tier {
        match s {
            "thorough" => Tier::Thorough,
            _ => Tier::Quick,
        }
    }
    pub fn pick<T>(self, q: T, t: T) -> T {
        match self {
            Tier::Quick => q,
            Tier::Thorough => t,
        }
    }
}

/// One enumerated case: a printable key (unique inside the property's space)
/// and whatever payload the check needs, encoded in the key itself or in
/// `data`.
#[derive(Clone, Debug)]
pub struct Case {
    /// Family name (sub-space) of the case, used in coverage breakdown.
    pub fam: &'static str,
    /// Unique printable key; usually the query string itself.
    pub key: String,
    /// Optional payload (JSON) for checks that need structure.
    pub data: serde_json::Value,
}

impl Case {
    pub fn new(fam: &'static str, key: impl Into<String>) -> Case {
        Case {
            fam,
            key: key.into(),
            data: serde_json::Value::Null,
        }
    }
    pub fn with(fam: &'static str, key: impl Into<String>, data: serde_json::Value) -> Case {
        Case {
            fam,
            key: key.into(),
            data,
        }
    }
}

pub enum Verdict {
    /// The property held on this case. `nontrivial`: the case reached the
    /// anchored code with a defined oracle; `obs`: hash of the observation.
    Pass { nontrivial: bool, obs: u64 },
    /// The statement is silent on this case (counted, never judged).
    DontCare(&'static str),
    /// The property is violated on this case.
    Fail {
        /// narrow class of the failure (used to match known findings)
        signature: String,
        detail: String,
    },
}

pub fn pass(nontrivial: bool, obs: u64) -> Verdict {
    Verdict::Pass { nontrivial, obs }
}

pub fn fail(signature: impl Into<String>, detail: impl Into<String>) -> Verdict {
    Verdict::Fail {
        signature: signature.into(),
        detail: detail.into(),
    }
}

/// Per-worker environment handed to checks.
pub struct Env {
    pub tier: Tier,
    /// "release" or "verif-debug"
    pub profile: String,
    db: Option<anything::Db>,
    /// A check whose case stands for many sub-cases (bulk enumeration inside
    /// `check`) adds the number of sub-cases it evaluated / found non-trivial.
    pub bulk_evals: u64,
    pub bulk_nontrivial: u64,
}

impl Env {
    pub fn new(tier: Tier) -> Env {
        Env {
            tier,
            profile: std::env::var("VH_PROFILE").unwrap_or_else(|_| "release".into()),
            db: None,
            bulk_evals: 0,
            bulk_nontrivial: 0,
        }
    }
    pub fn db(&mut self) -> &anything::Db {
        if self.db.is_none() {
            self.db = Some(anything::Db::in_memory().expect("Db::in_memory"));
        }
        self.db.as_ref().unwrap()
    }
    pub fn fresh_db(&mut self) -> anything::Db {
        anything::Db::in_memory().expect("Db::in_memory")
    }
}

pub trait Prop: Sync {
    fn id(&self) -> &'static str;
    /// evidence level
    fn level(&self) -> &'static str {
        "exploration"
    }
    fn rule(&self) -> String;
    fn assumptions(&self) -> Vec<String>;
    /// Profiles this property must be run under.
    fn profiles(&self, _tier: Tier) -> Vec<&'static str> {
        vec!["release"]
    }
    /// Whether observations may be compared across worker processes (false
    /// for checks whose observations depend on the worker's own `Db`
    /// instance: the statement of C14 is not theirs to decide).
    fn cross_process_determinism(&self) -> bool {
        true
    }
    /// Per-case wall budget in seconds (a case exceeding it is a hang).
    fn case_budget_s(&self) -> u64 {
        20
    }
    /// Whether the check's oracle looks at the units of results (then the run starts with
    /// `obs::selfcheck`, which makes sure the harness can read them from this build).
    fn observes_units(&self) -> bool {
        true
    }
    /// Whether a crash/hang of the subject on a case is a violation of this
    /// property (true for all: a crash is never "the exact value").
    fn generate(&self, tier: Tier, sink: &mut dyn FnMut(Case));
    fn check(&self, env: &mut Env, case: &Case) -> Verdict;
    /// Extra, property specific coverage keys computed by the parent after
    /// the run (e.g. description of bounds completed).
    fn bounds(&self, tier: Tier) -> serde_json::Value;
    /// Replay: print whatever helps to understand the case.
    fn explain(&self, env: &mut Env, case: &Case) -> String {
        match self.check(env, case) {
            Verdict::Pass { .. } => "PASS".into(),
            Verdict::DontCare(r) => format!("DONTCARE {r}"),
            Verdict::Fail { signature, detail } => format!("FAIL [{signature}] {detail}"),
        }
    }
}

pub fn fnv(s: &[u8]) -> u64 {
    // FNV-1a 64 with a final avalanche (deterministic across processes)
    let mut h: u64 = 0xcbf29ce484222325;
    for b in s {
        h ^= *b as u64;
        h = h.wrapping_mul(0x100000001b3);
    }
    h ^= h >> 33;
    h = h.wrapping_mul(0xff51afd7ed558ccd);
    h ^= h >> 33;
    h
}

pub fn hash_str(s: &str) -> u64 {
    fnv(s.as_bytes())
}

// ---------------------------------------------------------------------------
// Worker side

#[derive(Serialize, Deserialize, Default, Debug)]
pub struct Violation {
    pub key: String,
    pub fam: String,
    pub signature: String,
    pub detail: String,
    pub profile: String,
    pub data: serde_json::Value,
}

#[derive(Serialize, Deserialize, Default, Debug)]
pub struct WorkerReport {
    pub shard: usize,
    pub profile: String,
    pub generated: u64,
    pub evaluations: u64,
    pub nontrivial_distinct: u64,
    pub dontcare: BTreeMap<String, u64>,
    pub fam_evals: BTreeMap<String, u64>,
    pub fam_nontrivial: BTreeMap<String, u64>,
    pub outcomes: Vec<u64>,
    pub outcomes_capped: bool,
    pub samples: Vec<String>,
    pub known: BTreeMap<String, (u64, String)>,
    pub unknown: Vec<Violation>,
    pub unknown_total: u64,
    pub stride: Vec<(u64, u64)>,
    pub capped: bool,
    pub wall_s: f64,
    pub duplicate_keys: u64,
    #[serde(default)]
    pub bulk_evals: u64,
}

static CUR_LEN: AtomicUsize = AtomicUsize::new(0);
static mut CUR_BUF: [u8; 4096] = [0; 4096];
static CASE_COUNTER: AtomicU64 = AtomicU64::new(0);
static CASE_INDEX: AtomicU64 = AtomicU64::new(0);
static IN_CHECK: std::sync::atomic::AtomicBool = std::sync::atomic::AtomicBool::new(false);

fn set_current(key: &str, gen_index: u64) {
    let b = key.as_bytes();
    let n = b.len().min(4000);
    unsafe {
        let p = std::ptr::addr_of_mut!(CUR_BUF) as *mut u8;
        std::ptr::copy_nonoverlapping(b.as_ptr(), p, n);
    }
    CUR_LEN.store(n, Ordering::SeqCst);
    CASE_INDEX.store(gen_index, Ordering::SeqCst);
    CASE_COUNTER.fetch_add(1, Ordering::SeqCst);
}

fn dump_current(tag: &[u8]) {
    unsafe {
        let n = CUR_LEN.load(Ordering::SeqCst);
        let idx = CASE_INDEX.load(Ordering::SeqCst);
        let mut line = [0u8; 4200];
        let mut o = 0;
        for b in tag {
            line[o] = *b;
            o += 1;
        }
        // index as decimal
        let mut digits = [0u8; 24];
        let mut d = 0;
        let mut v = idx;
        if v == 0 {
            digits[0] = b'0';
            d = 1;
        }
        while v > 0 {
            digits[d] = b'0' + (v % 10) as u8;
            v /= 10;
            d += 1;
        }
        for i in (0..d).rev() {
            line[o] = digits[i];
            o += 1;
        }
        line[o] = b' ';
        o += 1;
        let p = std::ptr::addr_of!(CUR_BUF) as *const u8;
        for i in 0..n {
            line[o] = *p.add(i);
            o += 1;
        }
        line[o] = b'\n';
        o += 1;
        libc::write(2, line.as_ptr() as *const libc::c_void, o);
    }
}

extern "C" fn on_fatal(_sig: libc::c_int) {
    dump_current(b"\nVH-CRASH-CASE ");
    unsafe { libc::_exit(70) }
}

fn install_crash_handlers() {
    unsafe {
        // alternate stack so that stack overflow can be reported
        let sz = 1 << 16;
        let stack = libc::mmap(
            std::ptr::null_mut(),
            sz,
            libc::PROT_READ | libc::PROT_WRITE,
            libc::MAP_PRIVATE | libc::MAP_ANONYMOUS,
            -1,
            0,
        );
        let ss = libc::stack_t {
            ss_sp: stack,
            ss_flags: 0,
            ss_size: sz,
        };
        libc::sigaltstack(&ss, std::ptr::null_mut());
        for sig in [libc::SIGSEGV, libc::SIGABRT, libc::SIGBUS, libc::SIGILL, libc::SIGFPE] {
            let mut sa: libc::sigaction = std::mem::zeroed();
            sa.sa_sigaction = on_fatal as usize;
            sa.sa_flags = libc::SA_ONSTACK;
            libc::sigaction(sig, &sa, std::ptr::null_mut());
        }
    }
}

fn process_cpu() -> Duration {
    let mut ts = libc::timespec { tv_sec: 0, tv_nsec: 0 };
    unsafe { libc::clock_gettime(libc::CLOCK_PROCESS_CPUTIME_ID, &mut ts) };
    Duration::new(ts.tv_sec as u64, ts.tv_nsec as u32)
}

/// A case is a hang when it has been running for longer than the budget in wall time *and* the
/// worker has burnt at least half the budget in CPU time on it (a loop that does not end), or
/// when it has been blocked for six budgets of wall time (a wait that does not end). The CPU
/// condition keeps a starved machine (many checks at once) from turning slowness into a verdict.
fn start_watchdog(budget_s: u64) {
    std::thread::spawn(move || {
        let mut last = CASE_COUNTER.load(Ordering::SeqCst);
        let mut since = Instant::now();
        let mut cpu0 = process_cpu();
        loop {
            std::thread::sleep(Duration::from_millis(250));
            let cur = CASE_COUNTER.load(Ordering::SeqCst);
            if cur != last || !IN_CHECK.load(Ordering::SeqCst) {
                last = cur;
                since = Instant::now();
                cpu0 = process_cpu();
            } else if cur > 0 && since.elapsed() > Duration::from_secs(budget_s) {
                let burnt = process_cpu().saturating_sub(cpu0);
                if burnt > Duration::from_secs(budget_s / 2) || since.elapsed() > Duration::from_secs(6 * budget_s) {
                    dump_current(b"\nVH-HANG-CASE ");
                    unsafe { libc::_exit(71) }
                }
            }
        }
    });
}

pub struct Known {
    /// signature -> (status, note)
    pub map: HashMap<(String, String), (String, String)>,
}

impl Known {
    /// File format (one entry per line, `#` comments):
    ///   known: property=<ID> signature=<signature> :: <what fails>
    ///   fixed: property=<ID> <commit> <what failed>
    /// `fixed` entries suppress nothing.
    pub fn load() -> Known {
        let path = verif_dir().join("known_findings.txt");
        let mut map = HashMap::new();
        if let Ok(text) = std::fs::read_to_string(&path) {
            for line in text.lines() {
                let line = line.trim();
                if line.is_empty() || line.starts_with('#') || line.starts_with("fixed:") {
                    continue;
                }
                let parsed = (|| {
                    let rest = line.strip_prefix("known:")?.trim();
                    let rest = rest.strip_prefix("property=")?;
                    let (prop, rest) = rest.split_once(' ')?;
                    let rest = rest.trim().strip_prefix("signature=")?;
                    let (sig, what) = rest.split_once(" :: ")?;
                    Some((prop.to_string(), sig.to_string(), what.to_string()))
                })();
                match parsed {
                    Some((p, s, w)) => {
                        map.insert((p, s), ("known".to_string(), w));
                    }
                    None => {
                        eprintln!("machinery: bad known_findings line: {line}");
                        std::process::exit(2);
                    }
                }
            }
        }
        Known { map }
    }
    /// Some(what) if the signature is listed as a *known* (unrepaired) finding.
    pub fn is_known(&self, prop: &str, sig: &str) -> Option<&str> {
        match self.map.get(&(prop.to_string(), sig.to_string())) {
            Some((status, what)) if status == "known" => Some(what.as_str()),
            _ => None,
        }
    }
}

pub fn verif_dir() -> PathBuf {
    PathBuf::from(std::env::var("VERIF_DIR").unwrap_or_else(|_| "/verif".into()))
}

pub struct WorkerArgs {
    pub tier: Tier,
    pub shard: usize,
    pub nshards: usize,
    /// skip all generated cases with index < start
    pub start: u64,
    pub deadline_s: u64,
}

/// Unwind payload used to leave a generator once the wall budget is used up.
struct CapReached;

pub fn run_worker(prop: &dyn Prop, args: WorkerArgs) -> WorkerReport {
    install_crash_handlers();
    start_watchdog(prop.case_budget_s());
    // Silence the default panic hook: panics are caught and reported per case.
    std::panic::set_hook(Box::new(|_| {}));
    let known = Known::load();
    let started = Instant::now();
    let mut env = Env::new(args.tier);
    let mut rep = WorkerReport {
        shard: args.shard,
        profile: env.profile.clone(),
        ..Default::default()
    };
    let mut nontrivial: HashSet<u64> = HashSet::new();
    let mut seen_keys: HashSet<u64> = HashSet::new();
    let mut outcomes: HashSet<u64> = HashSet::new();
    let nsh = args.nshards as u64;
    let me = args.shard as u64;
    let next = (me + 1) % nsh;
    let mut gen_index: u64 = 0;
    let deadline = Duration::from_secs(args.deadline_s);
    let id = prop.id();
    // cases on which an earlier run of this shard crashed or hung
    let skip: HashSet<String> = std::env::var("VH_SKIP_KEYS").ok().and_then(|s| serde_json::from_str::<Vec<String>>(&s).ok()).unwrap_or_default().into_iter().collect();
    let mut sink = |case: Case| {
        let idx = gen_index;
        gen_index += 1;
        if rep.capped {
            // the wall budget is used up: leave the generator as well (some spaces take
            // minutes just to enumerate); caught right around `prop.generate` below
            std::panic::resume_unwind(Box::new(CapReached));
        }
        if idx % 65536 == 0 && idx > 0 && started.elapsed() > deadline {
            rep.capped = true;
            return;
        }
        let h = hash_str(&case.key) ^ fnv(case.fam.as_bytes());
        let owner = h % nsh;
        let stride = (h / nsh) % 97 == 0;
        let mine = owner == me;
        let cross = stride && owner == next && nsh > 1 && prop.cross_process_determinism();
        if !mine && !cross {
            return;
        }
        if idx < args.start {
            return;
        }
        if mine && !seen_keys.insert(h) {
            rep.duplicate_keys += 1;
            return;
        }
        if idx % 256 == 0 && started.elapsed() > deadline {
            rep.capped = true;
            return;
        }
        if skip.contains(&case.key) {
            return;
        }
        set_current(&case.key, idx);
        IN_CHECK.store(true, Ordering::SeqCst);
        let bulk_before = (env.bulk_evals, env.bulk_nontrivial);
        let res = std::panic::catch_unwind(std::panic::AssertUnwindSafe(|| prop.check(&mut env, &case)));
        IN_CHECK.store(false, Ordering::SeqCst);
        let verdict = match res {
            Ok(v) => v,
            Err(p) => {
                let msg = if let Some(s) = p.downcast_ref::<&str>() {
                    s.to_string()
                } else if let Some(s) = p.downcast_ref::<String>() {
                    s.clone()
                } else {
                    "panic".to_string()
                };
                // A panic that escaped the check's own catch is attributed to
                // the subject: checks wrap their oracle-side code so that it
                // cannot panic on enumerated input.
                let short: String = msg.chars().take(90).collect();
                Verdict::Fail {
                    signature: format!("panic:{short}"),
                    detail: format!("subject panicked: {msg}"),
                }
            }
        };
        if !mine {
            // cross-shard determinism probe only (not counted)
            env.bulk_evals = bulk_before.0;
            env.bulk_nontrivial = bulk_before.1;
            if let Verdict::Pass { obs, .. } = verdict {
                rep.stride.push((h, obs));
            }
            return;
        }
        rep.evaluations += 1;
        *rep.fam_evals.entry(case.fam.to_string()).or_default() += 1;
        if rep.samples.len() < 3 || (rep.evaluations % 50021 == 0 && rep.samples.len() < 12) {
            rep.samples.push(format!("[{}] {}", case.fam, case.key));
        }
        match verdict {
            Verdict::Pass { nontrivial: nt, obs } => {
                if nt && nontrivial.insert(h) {
                    *rep.fam_nontrivial.entry(case.fam.to_string()).or_default() += 1;
                }
                if outcomes.len() < 200_000 {
                    outcomes.insert(obs);
                } else {
                    rep.outcomes_capped = true;
                }
                if stride {
                    rep.stride.push((h, obs));
                }
            }
            Verdict::DontCare(r) => {
                *rep.dontcare.entry(r.to_string()).or_default() += 1;
            }
            Verdict::Fail { signature, detail } => {
                if let Some(what) = known.is_known(id, &signature) {
                    let e = rep.known.entry(signature).or_insert((0, what.to_string()));
                    e.0 += 1;
                } else {
                    rep.unknown_total += 1;
                    // keep at most a handful per signature, 60 in total
                    let same = rep.unknown.iter().filter(|v| v.signature == signature).count();
                    if rep.unknown.len() < 60 && same < 3 {
                        rep.unknown.push(Violation {
                            key: case.key.clone(),
                            fam: case.fam.to_string(),
                            signature,
                            detail,
                            profile: env.profile.clone(),
                            data: case.data.clone(),
                        });
                    }
                }
            }
        }
    };
    if let Err(p) = std::panic::catch_unwind(std::panic::AssertUnwindSafe(|| prop.generate(args.tier, &mut sink))) {
        if p.downcast_ref::<CapReached>().is_none() {
            std::panic::resume_unwind(p);
        }
    }
    rep.generated = gen_index;
    rep.nontrivial_distinct = nontrivial.len() as u64 + env.bulk_nontrivial;
    rep.evaluations += env.bulk_evals;
    rep.bulk_evals = env.bulk_evals;
    rep.outcomes = outcomes.into_iter().collect();
    rep.wall_s = started.elapsed().as_secs_f64();
    rep
}

// ---------------------------------------------------------------------------
// Parent side

pub struct RunOpts {
    pub tier: Tier,
    pub nshards: usize,
    pub deadline_s: u64,
}

fn profile_bin(profile: &str) -> PathBuf {
    let exe = std::env::current_exe().expect("current_exe");
    // .../target/<profile>/vh
    let target = exe.parent().unwrap().parent().unwrap();
    target.join(profile).join("vh")
}

pub fn scratch_dir(tag: &str) -> PathBuf {
    let base = verif_dir().join("scratch");
    let d = base.join(format!("{}-{}", tag, std::process::id()));
    let _ = std::fs::remove_dir_all(&d);
    std::fs::create_dir_all(&d).expect("scratch dir");
    d
}

struct ShardRun {
    profile: String,
    shard: usize,
    start: u64,
    child: std::process::Child,
    home: PathBuf,
    skip: Vec<String>,
}

fn spawn_worker(id: &str, profile: &str, tier: Tier, shard: usize, n: usize, start: u64, deadline: u64, base: &Path, skip: &[String]) -> ShardRun {
    let bin = profile_bin(profile);
    if !bin.exists() {
        eprintln!("machinery: missing harness binary {}", bin.display());
        std::process::exit(2);
    }
    let home = base.join(format!("{profile}-{shard}"));
    let _ = std::fs::create_dir_all(&home);
    let child = std::process::Command::new(&bin)
        .arg("worker")
        .arg(id)
        .arg(tier.name())
        .arg(shard.to_string())
        .arg(n.to_string())
        .arg(start.to_string())
        .arg(deadline.to_string())
        .env("VH_PROFILE", profile)
        .env("VH_SKIP_KEYS", serde_json::to_string(skip).unwrap())
        .env("HOME", &home)
        .env("XDG_DATA_HOME", home.join("data"))
        .env("XDG_CONFIG_HOME", home.join("config"))
        .env("XDG_CACHE_HOME", home.join("cache"))
        .env_remove("RUST_LOG")
        .env("LC_ALL", "C")
        .env("RUST_BACKTRACE", "0")
        .stdout(std::process::Stdio::piped())
        .stderr(std::process::Stdio::piped())
        .spawn()
        .expect("spawn worker");
    ShardRun {
        profile: profile.to_string(),
        shard,
        start,
        child,
        home,
        skip: skip.to_vec(),
    }
}

pub struct Merged {
    pub reports: Vec<WorkerReport>,
    pub crash_violations: Vec<Violation>,
}

/// Run all shards of all profiles; restart a shard after a crash/hang of the
/// subject on a concrete case (which becomes a verdict about that case).
pub fn run_shards(prop: &dyn Prop, opts: &RunOpts) -> Merged {
    let base = scratch_dir(prop.id());
    let profiles = prop.profiles(opts.tier);
    let mut pending: Vec<(String, usize, u64, Vec<String>)> = Vec::new();
    for p in &profiles {
        for s in 0..opts.nshards {
            pending.push((p.to_string(), s, 0, Vec::new()));
        }
    }
    let mut reports = Vec::new();
    let mut crash_violations: Vec<Violation> = Vec::new();
    let maxpar = std::thread::available_parallelism().map(|n| n.get()).unwrap_or(16);
    let mut running: Vec<ShardRun> = Vec::new();
    pending.reverse();
    loop {
        while running.len() < maxpar {
            match pending.pop() {
                Some((p, s, start, skip)) => {
                    running.push(spawn_worker(prop.id(), &p, opts.tier, s, opts.nshards, start, opts.deadline_s, &base, &skip));
                }
                None => break,
            }
        }
        if running.is_empty() {
            break;
        }
        // wait for the first one (in order; simple and adequate)
        let run = running.remove(0);
        let ShardRun { profile, shard, start, child, home, mut skip } = run;
        let out = child.wait_with_output().expect("wait worker");
        let _ = std::fs::remove_dir_all(&home);
        let stderr = String::from_utf8_lossy(&out.stderr).to_string();
        let code = out.status.code();
        let crash_line = stderr
            .lines()
            .find(|l| l.starts_with("VH-CRASH-CASE ") || l.starts_with("VH-HANG-CASE "))
            .map(|s| s.to_string());
        match (code, crash_line) {
            (Some(0), _) => {
                let text = String::from_utf8_lossy(&out.stdout);
                let line = text.lines().rev().find(|l| l.starts_with('{'));
                match line.and_then(|l| serde_json::from_str::<WorkerReport>(l).ok()) {
                    Some(r) => reports.push(r),
                    None => {
                        eprintln!("machinery: worker {profile}/{shard} produced no report\n{stderr}");
                        std::process::exit(2);
                    }
                }
            }
            (_, Some(line)) => {
                let hang = line.starts_with("VH-HANG-CASE ");
                let rest = line.splitn(2, ' ').nth(1).unwrap_or("");
                let mut it = rest.splitn(2, ' ');
                let idx: u64 = it.next().unwrap_or("0").parse().unwrap_or(0);
                let key = it.next().unwrap_or("").to_string();
                let kind = if hang { "hang" } else { "abort" };
                let tail: String = stderr.lines().filter(|l| !l.starts_with("VH-")).rev().take(6).collect::<Vec<_>>().join(" | ");
                crash_violations.push(Violation {
                    key: key.clone(),
                    fam: "process".into(),
                    signature: format!("{kind}:{key}"),
                    detail: format!("worker process {kind} on this case (profile {profile}, exit {:?}): {tail}", out.status),
                    profile: profile.clone(),
                    data: serde_json::Value::Null,
                });
                if crash_violations.len() > 40 {
                    eprintln!("machinery: more than 40 crashing cases, giving up");
                    break;
                }
                // The partial report of the crashed worker is lost, so the
                // shard is re-run from its beginning with the crashing case
                // on its skip list (that case is already a verdict).
                let _ = (start, idx);
                skip.push(key);
                pending.push((profile, shard, 0, skip));
            }
            _ => {
                eprintln!("machinery: worker {profile}/{shard} failed: {:?}\n{}", out.status, stderr);
                std::process::exit(2);
            }
        }
    }
    let _ = std::fs::remove_dir_all(&base);
    Merged { reports, crash_violations }
}

pub fn run_parent(prop: &dyn Prop, opts: RunOpts) -> i32 {
    let started = Instant::now();
    let id = prop.id();
    let known = Known::load();
    let merged = run_shards(prop, &opts);
    let mut evaluations = 0u64;
    let mut nontrivial = 0u64;
    let mut dontcare: BTreeMap<String, u64> = BTreeMap::new();
    let mut fam_evals: BTreeMap<String, u64> = BTreeMap::new();
    let mut fam_nt: BTreeMap<String, u64> = BTreeMap::new();
    let mut outcomes: HashSet<u64> = HashSet::new();
    let mut outcomes_capped = false;
    let mut samples = Vec::new();
    let mut known_hits: BTreeMap<String, (u64, String)> = BTreeMap::new();
    let mut unknown: Vec<Violation> = Vec::new();
    let mut unknown_total = 0u64;
    let mut capped = false;
    let mut stride: HashMap<(String, u64), u64> = HashMap::new();
    let mut stride_checked = 0u64;
    let mut generated: BTreeMap<String, u64> = BTreeMap::new();
    let mut dupes = 0u64;
    for r in &merged.reports {
        // counts are reported for the first profile only where both profiles
        // run the same space; nontrivial/evaluations are summed per profile.
        evaluations += r.evaluations;
        nontrivial += r.nontrivial_distinct;
        for (k, v) in &r.dontcare {
            *dontcare.entry(k.clone()).or_default() += v;
        }
        for (k, v) in &r.fam_evals {
            *fam_evals.entry(k.clone()).or_default() += v;
        }
        for (k, v) in &r.fam_nontrivial {
            *fam_nt.entry(k.clone()).or_default() += v;
        }
        outcomes.extend(r.outcomes.iter().copied());
        outcomes_capped |= r.outcomes_capped;
        for s in r.samples.iter().take(2) {
            if samples.len() < 24 {
                samples.push(s.clone());
            }
        }
        for (k, (n, what)) in &r.known {
            let e = known_hits.entry(k.clone()).or_insert((0, what.clone()));
            e.0 += n;
        }
        unknown_total += r.unknown_total;
        for v in &r.unknown {
            unknown.push(Violation {
                key: v.key.clone(),
                fam: v.fam.clone(),
                signature: v.signature.clone(),
                detail: v.detail.clone(),
                profile: v.profile.clone(),
                data: v.data.clone(),
            });
        }
        capped |= r.capped;
        dupes += r.duplicate_keys;
        generated.insert(format!("{}", r.profile), r.generated);
        for (h, o) in &r.stride {
            match stride.insert((r.profile.clone(), *h), *o) {
                Some(prev) => {
                    stride_checked += 1;
                    if prev != *o {
                        eprintln!("machinery: nondeterministic observation for case hash {h:x} (profile {})", r.profile);
                        return 2;
                    }
                }
                None => {}
            }
        }
    }
    for v in merged.crash_violations {
        if let Some(what) = known.is_known(id, &v.signature) {
            let e = known_hits.entry(v.signature.clone()).or_insert((0, what.to_string()));
            e.0 += 1;
        } else {
            unknown_total += 1;
            unknown.push(v);
        }
    }
    // The number of profiles multiplies evaluations; distinct_nontrivial is
    // reported per profile (divide by number of profiles).
    let nprof = prop.profiles(opts.tier).len().max(1) as u64;
    let distinct_nontrivial = nontrivial / nprof;

    // Replay files + verdict lines
    let replay_dir = verif_dir().join("replays").join(id);
    let _ = std::fs::create_dir_all(&replay_dir);
    let mut printed = 0;
    let mut seen_sig: HashSet<String> = HashSet::new();
    unknown.sort_by(|a, b| (a.key.len(), &a.key).cmp(&(b.key.len(), &b.key)));
    let mut violation_samples = Vec::new();
    for v in &unknown {
        if !seen_sig.insert(v.signature.clone()) {
            continue;
        }
        if printed >= 25 {
            break;
        }
        let name = format!("{:016x}.json", hash_str(&format!("{}|{}", v.fam, v.key)));
        let path = replay_dir.join(name);
        let body = serde_json::json!({
            "property": id, "fam": v.fam, "key": v.key, "signature": v.signature,
            "detail": v.detail, "profile": v.profile, "data": v.data,
            "replay": format!("./check {id} --replay {}", path.display()),
        });
        let _ = std::fs::write(&path, serde_json::to_string_pretty(&body).unwrap());
        println!("VIOLATION property={} replay={}", id, path.display());
        println!("  case: [{}] {}", v.fam, v.key);
        println!("  why : [{}] {}", v.signature, v.detail);
        violation_samples.push(format!("[{}] {} :: {}", v.fam, v.key, v.detail));
        printed += 1;
    }
    for (sig, (n, what)) in &known_hits {
        println!("KNOWN-FINDING: property={} {} (signature {}; {} cases)", id, what, sig, n);
    }
    let wall = started.elapsed().as_secs_f64();
    let seed: i64 = std::env::var("VERIF_SEED").ok().and_then(|s| s.parse().ok()).unwrap_or(0);
    let exhaustive = !capped;
    let mut coverage = serde_json::json!({
        "evaluations": evaluations,
        "distinct_nontrivial": distinct_nontrivial,
        "rule": prop.rule(),
        "samples": samples,
        "exhaustive": exhaustive,
        "capped_by_wall_budget": capped,
        "profiles": prop.profiles(opts.tier),
        "generated_per_profile": generated,
        "families_evaluated": fam_evals,
        "families_nontrivial": fam_nt,
        "dont_care": dontcare,
        "distinct_observed_outcomes": outcomes.len(),
        "distinct_observed_outcomes_is_lower_bound": outcomes_capped,
        "determinism_cross_checks": stride_checked,
        "duplicate_keys_skipped": dupes,
        "known_findings_hit": known_hits.iter().map(|(k, (n, w))| serde_json::json!({"signature": k, "cases": n, "what": w})).collect::<Vec<_>>(),
        "unlisted_violations": unknown_total,
        "violation_samples": violation_samples,
        "bounds": prop.bounds(opts.tier),
        "shards": opts.nshards,
    });
    if prop.level() == "model_checking" {
        // model_checking checks built on this framework report states and
        // transitions through `bounds`.
        if let Some(obj) = prop.bounds(opts.tier).as_object() {
            for k in ["states", "transitions", "traces_validated_against_impl"] {
                if let Some(v) = obj.get(k) {
                    coverage[k] = v.clone();
                }
            }
        }
    }
    let evidence = serde_json::json!({
        "property_id": id,
        "tier": opts.tier.name(),
        "seed": seed,
        "level": prop.level(),
        "coverage": coverage,
        "assumptions": prop.assumptions(),
        "wall_s": wall,
        "violations": unknown_total,
    });
    write_evidence(id, &evidence);
    eprintln!(
        "{id} {}: evaluations={evaluations} distinct_nontrivial={distinct_nontrivial} outcomes={} known={} unlisted={} capped={capped} wall={wall:.1}s",
        opts.tier.name(),
        outcomes.len(),
        known_hits.len(),
        unknown_total
    );
    if unknown_total > 0 {
        1
    } else {
        0
    }
}

pub fn write_evidence(id: &str, evidence: &serde_json::Value) {
    let dir = verif_dir().join("evidence");
    let _ = std::fs::create_dir_all(&dir);
    let path = dir.join(format!("{id}.json"));
    let mut f = std::fs::File::create(&path).expect("evidence file");
    f.write_all(serde_json::to_string_pretty(evidence).unwrap().as_bytes()).unwrap();
    f.write_all(b"\n").unwrap();
}
